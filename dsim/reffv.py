"""Small independent reference model of the finite-volume objects the Wasserstein solvers use.

Written from the documented conventions only (tensor grid, cells numbered in Fortran order,
interior faces numbered axis by axis in Fortran order of the (shape - e_d) face lattice, a
positive normal flux points from the lower- to the higher-index neighbour):

* ``outflow(u)``   net outflow of every cell = sum over its faces of +-(face area) * u_f
* ``cell_flux(u, pt)`` RT0 reconstruction: along axis d linear interpolation between the
  fluxes of the two opposite faces of the cell (zero on the outer boundary)
* ``cost(u, w, mode)`` integral of |w * cell_flux| with the quadrature named by ``mode``
"""

from __future__ import annotations

import itertools

import numpy as np

GAUSS_POINTS_PER_DIRECTION = {1: 5, 2: 4, 3: 3}  # the 'max' rule documented for RT0 integration


class RefFV:
    def __init__(self, shape, voxel_size, rt_rule=None):
        # rt_rule: optional (points, weights) on the unit cell used for the 'raviart_thomas' mode.  The
        # exactness of the library's quadrature tables is property C15's subject, not C04's, so the C04
        # engine passes the library's own table here (trusted base) and keeps everything else independent.
        self.rt_rule = rt_rule
        self.shape = tuple(int(s) for s in shape)
        self.dim = len(self.shape)
        self.h = np.array([float(v) for v in voxel_size], dtype=float)
        assert len(self.h) == self.dim
        self.cell_volume = float(np.prod(self.h))
        self.face_area = [float(np.prod(np.delete(self.h, d))) for d in range(self.dim)]
        self.faces_shape = [tuple(s - (1 if a == d else 0) for a, s in enumerate(self.shape))
                            for d in range(self.dim)]
        self.nfaces_axis = [int(np.prod(fs)) for fs in self.faces_shape]
        self.num_faces = int(sum(self.nfaces_axis))
        self.num_cells = int(np.prod(self.shape))
        self.offsets = np.concatenate([[0], np.cumsum(self.nfaces_axis)]).astype(int)

    def _axis_flux(self, u, d):
        return np.asarray(u)[self.offsets[d]:self.offsets[d + 1]].reshape(self.faces_shape[d], order="F")

    def _sl(self, d, lower: bool):
        s = [slice(None)] * self.dim
        s[d] = slice(None, -1) if lower else slice(1, None)
        return tuple(s)

    def outflow(self, u) -> np.ndarray:
        out = np.zeros(self.shape, dtype=float)
        for d in range(self.dim):
            U = self._axis_flux(u, d)
            out[self._sl(d, True)] += self.face_area[d] * U
            out[self._sl(d, False)] -= self.face_area[d] * U
        return out.ravel(order="F")

    def cell_flux(self, u, pt=None) -> np.ndarray:
        pt = np.full(self.dim, 0.5) if pt is None else np.atleast_1d(np.asarray(pt, dtype=float))
        cf = np.zeros(self.shape + (self.dim,), dtype=float)
        for d in range(self.dim):
            U = self._axis_flux(u, d)
            cf[self._sl(d, True) + (d,)] += pt[d] * U          # face on the upper side of the cell
            cf[self._sl(d, False) + (d,)] += (1.0 - pt[d]) * U  # face on the lower side of the cell
        return cf

    def quadrature(self, mode: str):
        if mode == "raviart_thomas" and self.rt_rule is not None:
            pts, wts = self.rt_rule
            pts = np.asarray(pts, dtype=float).reshape(len(wts), -1)
            return pts, np.asarray(wts, dtype=float)
        if mode == "raviart_thomas":
            n = GAUSS_POINTS_PER_DIRECTION[self.dim]
            x, w = np.polynomial.legendre.leggauss(n)
            x = (x + 1.0) / 2.0
            w = w / 2.0
        elif mode == "constant_subcell_projection":
            x, w = np.array([0.0, 1.0]), np.array([0.5, 0.5])
        elif mode == "constant_cell_projection":
            x, w = np.array([0.5]), np.array([1.0])
        else:
            raise ValueError(mode)
        pts, wts = [], []
        for idx in itertools.product(range(len(x)), repeat=self.dim):
            pts.append([x[i] for i in idx])
            wts.append(float(np.prod([w[i] for i in idx])))
        return np.array(pts), np.array(wts)

    def density(self, u, weight, mode: str) -> np.ndarray:
        pts, wts = self.quadrature(mode)
        dens = np.zeros(self.shape, dtype=float)
        for p, w in zip(pts, wts):
            cf = self.cell_flux(u, p)
            if weight is not None:
                cf = cf * np.asarray(weight, dtype=float)[..., None]
            dens += w * np.sqrt(np.sum(cf * cf, axis=-1))
        return dens

    def cost(self, u, weight, mode: str) -> float:
        return float(self.cell_volume * self.density(u, weight, mode).sum())

    def center_cell_flat(self) -> int:
        c = tuple(s // 2 for s in self.shape)
        return int(np.ravel_multi_index(c, self.shape, order="F"))
