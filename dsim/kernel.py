"""Deterministic-simulation kernel shared by all engines.

One integer decides a run: every random choice of run ``seed`` is drawn from
``substream(seed, label)`` (sha256-derived, independent of PYTHONHASHSEED).  A *case* is
the fully concrete, JSON-serialisable description of a run (objects, client programs,
schedule, fault plan, environment plan).  ``Engine.execute(case)`` is a pure function of
the case and the code under test; it returns an ``Outcome`` with the event log, the
violations found by the oracles, counters (faults fired, probes) and the keys of the
non-trivial abstract states reached.  Replay therefore needs no PRNG.
"""

from __future__ import annotations

import datetime
import hashlib
import json
import os
import pickle
import random
import select
import signal
import sys
import time as _real_time
import traceback
from collections import Counter
from typing import Any, Callable, Iterable, Optional

import numpy as np

VERIF_ROOT = os.path.dirname(os.path.dirname(os.path.abspath(__file__)))


# --------------------------------------------------------------------------- PRNG
def substream(seed: int, label: str) -> random.Random:
    h = hashlib.sha256(f"{seed}/{label}".encode()).digest()
    return random.Random(int.from_bytes(h[:16], "big"))


def run_seed(base: int, i: int) -> int:
    return base * 1_000_003 + i


# --------------------------------------------------------------------------- canonical form
def canon(x: Any) -> Any:
    """Canonical JSON-able form used for digests (exact: floats by hex, arrays by hash)."""
    if x is None or isinstance(x, (bool, str)):
        return x
    if isinstance(x, (int, np.integer)) and not isinstance(x, (bool, np.bool_)):
        return int(x)
    if isinstance(x, (np.bool_,)):
        return bool(x)
    if isinstance(x, (float, np.floating)):
        return "f:" + float(x).hex()
    if isinstance(x, complex):
        return ["c", canon(x.real), canon(x.imag)]
    if isinstance(x, np.ndarray):
        a = np.ascontiguousarray(x)
        if a.dtype == object:
            return ["ndo", list(a.shape), [canon(v) for v in a.ravel().tolist()]]
        return ["nd", str(a.dtype), list(a.shape), hashlib.sha256(a.tobytes()).hexdigest()[:24]]
    if isinstance(x, (list, tuple)):
        return [canon(v) for v in x]
    if isinstance(x, dict):
        return {str(k): canon(v) for k, v in sorted(x.items(), key=lambda kv: str(kv[0]))}
    if isinstance(x, (datetime.datetime, datetime.date)):
        return "d:" + x.isoformat()
    if isinstance(x, datetime.timedelta):
        return "td:" + repr(x.total_seconds())
    if isinstance(x, (bytes, bytearray)):
        return "b:" + hashlib.sha256(bytes(x)).hexdigest()[:24]
    if isinstance(x, slice):
        return ["slice", canon(x.start), canon(x.stop), canon(x.step)]
    if isinstance(x, (set, frozenset)):
        return ["set", sorted(json.dumps(canon(v), sort_keys=True) for v in x)]
    return "r:" + type(x).__name__


def digest(x: Any) -> str:
    return hashlib.sha256(json.dumps(canon(x), sort_keys=True).encode()).hexdigest()[:20]


def jsonable(x: Any) -> Any:
    """Human-readable JSON form (for replay files / evidence samples)."""
    if x is None or isinstance(x, (bool, str, int, float)):
        if isinstance(x, float) and (x != x or x in (float("inf"), float("-inf"))):
            return repr(x)
        return x
    if isinstance(x, (np.integer,)):
        return int(x)
    if isinstance(x, (np.floating,)):
        return jsonable(float(x))
    if isinstance(x, np.bool_):
        return bool(x)
    if isinstance(x, np.ndarray):
        if x.size <= 16:
            return jsonable(x.tolist())
        return {"ndarray": str(x.dtype), "shape": list(x.shape), "sha": digest(x)}
    if isinstance(x, (list, tuple)):
        return [jsonable(v) for v in x]
    if isinstance(x, dict):
        return {str(k): jsonable(v) for k, v in x.items()}
    return repr(x)


# --------------------------------------------------------------------------- outcome
class Outcome:
    __slots__ = ("events", "violations", "counters", "nontrivial", "sim_time", "extra")

    def __init__(self) -> None:
        self.events: list = []
        self.violations: list[dict] = []
        self.counters: Counter = Counter()
        self.nontrivial: set[str] = set()
        self.sim_time: float = 0.0
        self.extra: dict = {}

    def event(self, **kw) -> None:
        kw["seq"] = len(self.events)
        self.events.append(kw)

    def violate(self, oracle: str, culprit: str, step: int, **detail) -> None:
        self.violations.append(
            {"oracle": oracle, "culprit": culprit, "step": step, "detail": jsonable(detail)}
        )

    def digest(self) -> str:
        return digest({"events": self.events,
                       "violations": [[v["oracle"], v["culprit"], v["step"]] for v in self.violations]})

    def pack(self) -> dict:
        return {
            "events": self.events,
            "violations": self.violations,
            "counters": dict(self.counters),
            "nontrivial": sorted(self.nontrivial),
            "sim_time": self.sim_time,
            "digest": self.digest(),
            "extra": self.extra,
        }


def signature(v: dict) -> str:
    return f"{v['oracle']}|{v['culprit']}"


class HarnessError(Exception):
    """Something wrong with the simulator itself (never a VIOLATION, never exit 0)."""


# --------------------------------------------------------------------------- engine base
class Engine:
    prop: str = ""
    name: str = ""
    level: str = "exploration"
    rule: str = ""
    components_real: list[str] = []
    components_stub: list[str] = []
    assumptions: list[str] = []
    quick_runs: int = 1000
    quick_budget_s: float = 150.0
    thorough_budget_s: float = 1500.0
    chunk: int = 25
    run_timeout_s: float = 120.0
    determinism_sample: int = 24
    needs_pristine_parent: bool = False
    isolate_runs: bool = False  # execute every run in its own fork of the (pristine) worker process

    def generate(self, seed: int, tier: str) -> dict:
        raise NotImplementedError

    def execute(self, case: dict) -> Outcome:
        raise NotImplementedError

    def shrink_candidates(self, case: dict) -> Iterable[dict]:
        return ()

    def case_size(self, case: dict) -> int:
        return len(json.dumps(case))

    def check_seams(self) -> None:
        """Raise HarnessError('seam missing: ...') if an attribute the engine patches is gone."""

    def fixed_cases(self, tier: str) -> list[dict]:
        """Deterministic cases executed before the seeded search: the minimised traces of every
        defect found so far (regressions/<prop>/*.json).  They suppress nothing - if a repaired
        defect returns, its trace fails again and is reported as a VIOLATION."""
        d = os.path.join(VERIF_ROOT, "regressions", self.prop)
        out = []
        if os.path.isdir(d):
            for fn in sorted(os.listdir(d)):
                if fn.endswith(".json"):
                    with open(os.path.join(d, fn)) as f:
                        out.append(json.load(f)["case"])
        return out


# --------------------------------------------------------------------------- fork helper
def in_fork(fn: Callable, *args, timeout: float = 120.0):
    """Run fn(*args) in a forked child of the *current* process and return its result.

    The child inherits the parent's memory image; if the parent has only imported the
    library and never executed an operation, the child is a pristine process.
    """
    r, w = os.pipe()
    sys.stdout.flush()
    sys.stderr.flush()
    pid = os.fork()
    if pid == 0:
        code = 0
        try:
            os.close(r)
            try:
                res = ("ok", fn(*args))
            except BaseException as e:  # noqa
                res = ("exc", f"{type(e).__name__}: {e}", traceback.format_exc())
            with os.fdopen(w, "wb") as f:
                pickle.dump(res, f, protocol=pickle.HIGHEST_PROTOCOL)
        except BaseException:
            code = 3
        finally:
            os._exit(code)
    os.close(w)
    chunks = []
    deadline = _real_time.monotonic() + timeout
    try:
        while True:
            left = deadline - _real_time.monotonic()
            if left <= 0:
                os.kill(pid, signal.SIGKILL)
                os.waitpid(pid, 0)
                raise HarnessError(f"forked evaluation exceeded {timeout}s")
            rl, _, _ = select.select([r], [], [], min(left, 5.0))
            if rl:
                b = os.read(r, 1 << 20)
                if not b:
                    break
                chunks.append(b)
    finally:
        os.close(r)
    os.waitpid(pid, 0)
    data = b"".join(chunks)
    if not data:
        raise HarnessError("forked evaluation died without a result")
    res = pickle.loads(data)
    if res[0] == "exc":
        raise HarnessError("forked evaluation raised: " + res[1] + "\n" + res[2])
    return res[1]


# --------------------------------------------------------------------------- watchdog
class _Timeout(BaseException):
    pass


def _alarm(signum, frame):  # pragma: no cover
    raise _Timeout()


def run_one(engine: Engine, case: dict, _inner: bool = False) -> dict:
    """Execute one case under a watchdog and return the packed outcome."""
    if engine.isolate_runs and not _inner:
        # no state can leak from one run into the next, so every violation replays from its case alone
        return in_fork(run_one, engine, case, True, timeout=engine.run_timeout_s + 30)
    old = signal.signal(signal.SIGALRM, _alarm)
    signal.setitimer(signal.ITIMER_REAL, engine.run_timeout_s)
    try:
        out = engine.execute(case)
        return out.pack()
    except _Timeout:
        raise HarnessError(f"watchdog: run exceeded {engine.run_timeout_s}s (seed {case.get('seed')})")
    finally:
        signal.setitimer(signal.ITIMER_REAL, 0)
        signal.signal(signal.SIGALRM, old)


# --------------------------------------------------------------------------- minimisation
def minimise(engine: Engine, case: dict, sig: str, budget_s: float,
             runner: Callable[[dict], dict]) -> tuple[dict, dict, int]:
    """Greedy delta-debugging: accept any smaller candidate that still shows ``sig``."""
    t0 = _real_time.monotonic()
    best = case
    best_out = runner(case)
    tried = 0
    improved = True
    while improved and _real_time.monotonic() - t0 < budget_s:
        improved = False
        for cand in engine.shrink_candidates(best):
            if _real_time.monotonic() - t0 > budget_s:
                break
            if engine.case_size(cand) >= engine.case_size(best):
                continue
            tried += 1
            try:
                out = runner(cand)
            except HarnessError:
                continue
            if any(signature(v) == sig for v in out["violations"]):
                best, best_out = cand, out
                improved = True
                break
    return best, best_out, tried
