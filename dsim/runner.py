"""Batch driver: seeded search over runs on a fork pool, determinism re-check in a cold
interpreter, minimisation, replay files, known-findings handling, evidence."""

from __future__ import annotations

import argparse
import concurrent.futures as cf
import hashlib
import json
import multiprocessing as mp
import os
import subprocess
import sys
import time
import traceback
from collections import Counter

from . import kernel
from .kernel import HarnessError, signature

VERIF = kernel.VERIF_ROOT
KNOWN_PATH = os.path.join(VERIF, "known_findings.json")

_ENGINE = None  # set in the parent before the pool is forked


def _chunk(tier: str, seeds: list[int]) -> dict:
    eng = _ENGINE
    agg = {
        "runs": 0, "steps": 0, "counters": Counter(), "nontrivial": set(), "violations": [],
        "digests": {}, "samples": [], "sim_time": 0.0, "errors": [], "schedules": set(), "extra_max": {},
    }
    for seed in seeds:
        try:
            case = eng.generate(seed, tier)
            out = kernel.run_one(eng, case)
        except HarnessError as e:
            agg["errors"].append(f"seed {seed}: {e}")
            continue
        except Exception as e:  # harness bug, not a property violation
            agg["errors"].append(f"seed {seed}: {type(e).__name__}: {e}\n{traceback.format_exc()}")
            continue
        agg["runs"] += 1
        agg["steps"] += len(out["events"])
        agg["counters"].update(out["counters"])
        agg["nontrivial"].update(hashlib.sha256(k.encode()).digest()[:8] for k in out["nontrivial"])
        agg["sim_time"] += out["sim_time"]
        agg["digests"][seed] = out["digest"]
        for k, v in out.get("extra", {}).items():
            if isinstance(v, (int, float)):
                agg["extra_max"][k] = max(agg["extra_max"].get(k, 0.0), float(v))
        if "schedule" in case:
            agg["schedules"].add(hashlib.sha256(json.dumps(case["schedule"]).encode()).digest()[:8])
        if len(agg["samples"]) < 1:
            agg["samples"].append({"case": case, "events": kernel.jsonable(out["events"][:12]),
                                   "nontrivial_keys": out["nontrivial"][:4]})
        for v in out["violations"]:
            agg["violations"].append({"case": case, "violation": v})
    return agg


def load_known() -> dict:
    if os.path.exists(KNOWN_PATH):
        with open(KNOWN_PATH) as f:
            return json.load(f)
    return {"known": [], "fixed": []}


def _cold(check_args: list[str], hashseed: str, timeout: float) -> subprocess.CompletedProcess:
    env = dict(os.environ)
    env["PYTHONHASHSEED"] = hashseed
    env["DSIM_COLD"] = "1"
    return subprocess.run([sys.executable, os.path.join(VERIF, "check")] + check_args,
                          capture_output=True, text=True, env=env, timeout=timeout, cwd=VERIF)


def write_evidence(eng, tier, base_seed, wall, cov, violations_n, extra_assumptions=()):
    ev = {
        "property_id": eng.prop, "tier": tier, "seed": base_seed, "level": eng.level,
        "coverage": cov, "assumptions": list(eng.assumptions) + list(extra_assumptions),
        "wall_s": round(wall, 2), "violations": violations_n,
    }
    os.makedirs(os.path.join(VERIF, "evidence"), exist_ok=True)
    p = os.path.join(VERIF, "evidence", f"{eng.prop}.json")
    tmp = p + ".tmp"
    with open(tmp, "w") as f:
        json.dump(ev, f, indent=1, sort_keys=True)
    os.replace(tmp, p)


def exec_case_fresh(eng, case: dict) -> dict:
    """Execute a case in a forked child of this (pristine) process."""
    return kernel.in_fork(kernel.run_one, eng, case, timeout=eng.run_timeout_s + 30)


def cmd_replay(eng, path: str) -> int:
    with open(path) as f:
        rep = json.load(f)
    case = rep["case"]
    out = exec_case_fresh(eng, case)
    want = rep.get("signature")
    sigs = [signature(v) for v in out["violations"]]
    print(f"replay {path}: digest={out['digest']} recorded={rep.get('log_digest')} violations={sigs}")
    if want and want in sigs:
        if rep.get("log_digest") and rep["log_digest"] != out["digest"]:
            print("HARNESS-ERROR: replay reproduced the violation but the event log diverged")
            return 2
        v = [v for v in out["violations"] if signature(v) == want][0]
        print(json.dumps(v, indent=1))
        print(f"VIOLATION property={eng.prop} replay={path}")
        return 1
    if sigs and not want:
        print(f"VIOLATION property={eng.prop} replay={path}")
        return 1
    print("replay did not reproduce the recorded violation on this tree")
    return 0


def cmd_digests(eng, tier: str, seeds: list[int]) -> int:
    res = {}
    for s in seeds:
        case = eng.generate(s, tier)
        out = exec_case_fresh(eng, case) if eng.needs_pristine_parent else kernel.run_one(eng, case)
        res[str(s)] = out["digest"]
    print("DIGESTS " + json.dumps(res, sort_keys=True))
    return 0


def main(eng, argv: list[str]) -> int:
    global _ENGINE
    ap = argparse.ArgumentParser(prog=f"check {eng.prop}")
    ap.add_argument("--tier", default=os.environ.get("VERIF_TIER", "quick"), choices=["quick", "thorough"])
    ap.add_argument("--replay")
    ap.add_argument("--digests")
    ap.add_argument("--runs", type=int)
    ap.add_argument("--budget", type=float)
    ap.add_argument("--workers", type=int, default=int(os.environ.get("VERIF_WORKERS", "16")))
    ap.add_argument("--no-determinism", action="store_true")
    ap.add_argument("--no-minimise", action="store_true")
    ap.add_argument("--one", type=int, help="execute a single seed verbosely")
    args = ap.parse_args(argv)
    tier = args.tier
    base_seed = int(os.environ.get("VERIF_SEED", "0"))
    _ENGINE = eng

    try:
        eng.check_seams()
    except HarnessError as e:
        print(f"HARNESS-ERROR: {e}")
        return 2

    if args.replay:
        return cmd_replay(eng, args.replay)
    if args.digests:
        return cmd_digests(eng, tier, [int(s) for s in args.digests.split(",") if s])
    if args.one is not None:
        case = eng.generate(args.one, tier)
        out = exec_case_fresh(eng, case)
        print(json.dumps({"case": case, "outcome": kernel.jsonable(out)}, indent=1))
        return 1 if out["violations"] else 0

    t0 = time.monotonic()
    budget = args.budget or float(os.environ.get("VERIF_BUDGET_S", 0)) or (
        eng.quick_budget_s if tier == "quick" else eng.thorough_budget_s)
    max_runs = args.runs or (eng.quick_runs if tier == "quick" else 10**9)

    total = {"runs": 0, "steps": 0, "counters": Counter(), "nontrivial": set(), "violations": [],
             "digests": {}, "samples": [], "sim_time": 0.0, "errors": [], "schedules": set(), "extra_max": {}}

    def merge(a):
        for k, v in a.get("extra_max", {}).items():
            total["extra_max"][k] = max(total["extra_max"].get(k, 0.0), v)
        total["runs"] += a["runs"]
        total["steps"] += a["steps"]
        total["counters"].update(a["counters"])
        total["nontrivial"].update(a["nontrivial"])
        total["sim_time"] += a["sim_time"]
        total["schedules"].update(a["schedules"])
        if len(total["digests"]) < 4 * eng.determinism_sample:
            total["digests"].update(a["digests"])
        if len(total["samples"]) < 3:
            total["samples"].extend(a["samples"])
        total["errors"].extend(a["errors"])
        if len(total["violations"]) < 400:
            total["violations"].extend(a["violations"])

    # ---- fixed cases first (each in its own pristine fork)
    fixed = eng.fixed_cases(tier)
    for case in fixed:
        try:
            out = exec_case_fresh(eng, case)
        except HarnessError as e:
            total["errors"].append(f"fixed case: {e}")
            continue
        total["runs"] += 1
        total["steps"] += len(out["events"])
        total["counters"].update(out["counters"])
        total["nontrivial"].update(hashlib.sha256(k.encode()).digest()[:8] for k in out["nontrivial"])
        for v in out["violations"]:
            total["violations"].append({"case": case, "violation": v})

    # ---- seeded search on the fork pool
    ctx = mp.get_context("fork")
    nw = max(1, args.workers)
    next_i = 0
    first_seed = kernel.run_seed(base_seed, 0)
    pending = set()
    harness_fail = None
    with cf.ProcessPoolExecutor(max_workers=nw, mp_context=ctx) as pool:
        def submit():
            nonlocal next_i
            n = min(eng.chunk, max_runs - next_i)
            if n <= 0:
                return False
            seeds = [kernel.run_seed(base_seed, next_i + k) for k in range(n)]
            next_i += n
            pending.add(pool.submit(_chunk, tier, seeds))
            return True
        for _ in range(2 * nw):
            if not submit():
                break
        while pending:
            done, _ = cf.wait(pending, timeout=eng.run_timeout_s * eng.chunk + 60,
                              return_when=cf.FIRST_COMPLETED)
            if not done:
                harness_fail = "pool stalled: no chunk finished in time"
                for p in list(getattr(pool, "_processes", {}).values()):
                    try:
                        p.kill()
                    except Exception:
                        pass
                break
            for fut in done:
                pending.discard(fut)
                try:
                    merge(fut.result())
                except Exception as e:
                    harness_fail = f"worker failed: {type(e).__name__}: {e}"
                if harness_fail is None and time.monotonic() - t0 < budget:
                    submit()
            if harness_fail:
                break
    last_seed = kernel.run_seed(base_seed, max(0, next_i - 1))
    search_wall = time.monotonic() - t0

    if harness_fail or total["errors"]:
        print("HARNESS-ERROR: " + (harness_fail or total["errors"][0]))
        for e in total["errors"][1:5]:
            print("  also: " + e.splitlines()[0])
        return 2

    # ---- determinism: re-execute a sample in a cold interpreter with another hash seed
    det = {"checked": 0, "mismatches": 0, "cold_hashseed": None}
    if not args.no_determinism and total["digests"] and not os.environ.get("DSIM_COLD"):
        seeds = sorted(total["digests"])[: eng.determinism_sample]
        hs = str(1 + (base_seed * 7919 + 12345) % 4000000000)
        try:
            cp = _cold([eng.prop, "--tier", tier, "--digests", ",".join(map(str, seeds))], hs,
                       timeout=eng.run_timeout_s * len(seeds) + 120)
        except subprocess.TimeoutExpired:
            print("HARNESS-ERROR: cold determinism run timed out")
            return 2
        line = [l for l in cp.stdout.splitlines() if l.startswith("DIGESTS ")]
        if cp.returncode != 0 or not line:
            print("HARNESS-ERROR: cold determinism run failed\n" + cp.stdout[-2000:] + cp.stderr[-2000:])
            return 2
        cold = json.loads(line[0][8:])
        det["cold_hashseed"] = hs
        for s in seeds:
            det["checked"] += 1
            if cold.get(str(s)) != total["digests"][s]:
                det["mismatches"] += 1
                print(f"NONDETERMINISM seed={s} pool={total['digests'][s]} cold={cold.get(str(s))}")
        if det["mismatches"]:
            print("HARNESS-ERROR: event-log digests differ between pool run and cold interpreter")
            return 2

    # ---- triage violations
    known = load_known()
    known_by_sig = {k["signature"]: k for k in known.get("known", []) if k.get("property") == eng.prop}
    by_sig: dict[str, list] = {}
    for item in total["violations"]:
        by_sig.setdefault(signature(item["violation"]), []).append(item)
    new_sigs = [s for s in by_sig if s not in known_by_sig]
    exit_code = 0
    reported = []
    replay_dir = os.environ.get("DSIM_REPLAY_DIR") or os.path.join(VERIF, "replays")
    os.makedirs(replay_dir, exist_ok=True)
    min_budget = (60.0 if tier == "quick" else 300.0) / max(1, len(new_sigs))
    for sig in sorted(by_sig):
        items = sorted(by_sig[sig], key=lambda it: eng.case_size(it["case"]))
        if sig in known_by_sig:
            print(f"KNOWN-FINDING: property={eng.prop} {known_by_sig[sig]['what']} "
                  f"[signature {sig}; seen in {len(items)} run(s) of this batch]")
            continue
        case = items[0]["case"]
        tried = 0
        try:
            if args.no_minimise:
                out = exec_case_fresh(eng, case)
            else:
                case, out, tried = kernel.minimise(eng, case, sig, min_budget,
                                                   lambda c: exec_case_fresh(eng, c))
        except HarnessError as e:
            print(f"HARNESS-ERROR: could not re-execute violating case: {e}")
            return 2
        vs = [v for v in out["violations"] if signature(v) == sig]
        if not vs:
            print(f"HARNESS-ERROR: violation {sig} (seed {case.get('seed')}) did not reproduce in a fresh process")
            return 2
        h = hashlib.sha256(sig.encode()).hexdigest()[:8]
        path = os.path.join(replay_dir, f"{eng.prop}-{h}-{case.get('seed', 0)}.json")
        with open(path, "w") as f:
            json.dump({"property": eng.prop, "engine": eng.name, "signature": sig, "oracle": vs[0]["oracle"],
                       "violation": vs[0], "case": case, "log_digest": out["digest"],
                       "minimisation": {"candidates_tried": tried, "runs_with_this_signature": len(items)},
                       "events": kernel.jsonable(out["events"])}, f, indent=1)
        print(f"violation {sig}: {json.dumps(vs[0]['detail'])[:600]}")
        print(f"VIOLATION property={eng.prop} replay={path}")
        reported.append(sig)
        exit_code = 1

    wall = time.monotonic() - t0
    counters = total["counters"]
    faults = {k[6:]: v for k, v in counters.items() if k.startswith("fault:")}
    probes = {k[6:]: v for k, v in counters.items() if k.startswith("probe:")}
    ops = {k[3:]: v for k, v in counters.items() if k.startswith("op:")}
    other = {k: v for k, v in counters.items() if not k.startswith(("fault:", "probe:", "op:"))}
    cov = {
        "evaluations": total["runs"],
        "distinct_nontrivial": len(total["nontrivial"]),
        "rule": eng.rule,
        "samples": total["samples"][:3],
        "seed_first": first_seed, "seed_last": last_seed, "fixed_cases": len(fixed),
        "steps_executed": total["steps"],
        "runs_per_hour": int(total["runs"] / max(search_wall, 1e-9) * 3600),
        "simulated_seconds": round(total["sim_time"], 3),
        "distinct_schedules": len(total["schedules"]),
        "ops_executed": dict(sorted(ops.items())),
        "faults_fired": dict(sorted(faults.items())),
        "probes": dict(sorted(probes.items())),
        "counters": dict(sorted(other.items())),
        "determinism": det,
        "largest_observed_discrepancies": {k: float("%.3g" % v) for k, v in sorted(total["extra_max"].items())},
        "components_real_code": eng.components_real,
        "components_stubbed": eng.components_stub,
        "violation_signatures": reported,
        "known_findings_matched": sorted(s for s in by_sig if s in known_by_sig),
        "workers": nw,
    }
    if not os.environ.get("DSIM_NO_EVIDENCE"):  # selftest runs on mutated scratch copies must not touch evidence
        write_evidence(eng, tier, base_seed, wall, cov, len(reported))
    print(f"{eng.prop} {tier}: runs={total['runs']} steps={total['steps']} distinct_nontrivial={len(total['nontrivial'])} "
          f"faults={sum(faults.values())} violations={len(reported)} known={len(cov['known_findings_matched'])} "
          f"determinism={det['checked']}/{det['mismatches']} wall={wall:.1f}s")
    return exit_code
