"""C16 engine: histories of solver / regulariser / distance calls versus a pristine process.

The worker process that drives a run has imported darsia and never executed a library
operation; it is the zygote.  A run is executed as

  * child A (fork of the zygote): the whole history - all clients' programs interleaved by
    the seeded schedule, environment perturbations between steps, interrupt faults inside
    steps - returning every step's result;
  * one child per result-bearing step (fork of the zygote): the *same call issued first in
    a pristine process*, its object built from the constructor arguments and given the
    parameters that were set for it (C16.F / C16.R);
  * child C (fork of the zygote): the same client programs under another interleaving
    (C16.P).
"""

from __future__ import annotations

import copy
import random
import sys
import tracemalloc

import cv2
import numpy as np

import darsia
from dsim import kernel
from dsim.kernel import Engine, HarnessError, Outcome, substream
from engines import c04_wfaults as w1

SBT_MOD = sys.modules.get("darsia.restoration.split_bregman_tvd")
H1_MOD = sys.modules.get("darsia.restoration.h1_regularization")


# ----------------------------------------------------------------------------- JIT seam
_NJIT_MEMO: dict = {}


def _memo_njit(*dargs, **dkw):
    """Same function compiled by the real numba once per process instead of on every call."""
    import numba

    def deco(fn):
        key = (fn.__code__.co_code, fn.__code__.co_consts, repr(dargs), repr(sorted(dkw.items())))
        if key not in _NJIT_MEMO:
            _NJIT_MEMO[key] = numba.njit(*dargs, **dkw)(fn)
        return _NJIT_MEMO[key]
    return deco


def install_jit_seam():
    if SBT_MOD is None or not hasattr(SBT_MOD, "njit"):
        raise HarnessError("seam missing: darsia.restoration.split_bregman_tvd.njit")
    SBT_MOD.njit = _memo_njit


# ----------------------------------------------------------------------------- data from ids
NEIGHBOUR_SALT = 0  # set to 1 in the pristine reference process: what lies next to an argument in memory is not an argument


def arr_from(spec) -> np.ndarray:
    g = np.random.default_rng(50_000 + spec["id"])
    shape = tuple(spec["shape"]) + ((spec["chan"],) if spec.get("chan") else ())
    a = np.round(g.uniform(0.05, 1.0, size=shape) * 256) / 256
    dt = spec.get("dtype", "float64")
    if dt == "uint8":
        return (a * 255).astype(np.uint8)
    a = a.astype(dt)
    if spec.get("slab") is not None:
        # the argument is the middle frame of a caller-owned stack; the neighbouring frames hold other data in the
        # history than in the reference process (a routine reading outside its argument shows up as a difference)
        big = np.random.default_rng(55_000 + 2 * spec["slab"] + NEIGHBOUR_SALT).uniform(0.0, 1.0, size=(3,) + a.shape).astype(dt)
        big[1] = a
        return big[1]
    return a


def img_from(spec):
    a = arr_from(spec)
    if spec.get("form") == "image":
        d = len(spec["shape"])
        return darsia.Image(a, space_dim=d, scalar=not spec.get("chan"),
                            dimensions=[float(s) for s in spec["shape"]])
    return a


def coeff(v):
    """scalar or {'id','shape'} array coefficient"""
    if isinstance(v, dict):
        return np.random.default_rng(60_000 + v["id"]).uniform(0.5, 2.0, size=tuple(v["shape"]))
    return v


# ----------------------------------------------------------------------------- objects
def build_object(spec):
    c = spec["cls"]
    if c == "Jacobi":
        return darsia.Jacobi(maxiter=spec["maxiter"], tol=spec.get("tol"), dim=spec["dim"],
                             mass_coeff=coeff(spec["mass"]), diffusion_coeff=coeff(spec["diff"]))
    if c == "MG":
        return darsia.MG(depth=spec["depth"], smoother_iterations=spec["smoother_iterations"],
                         maxiter=spec["maxiter"], tol=spec.get("tol"), dim=spec["dim"],
                         mass_coeff=coeff(spec["mass"]), diffusion_coeff=coeff(spec["diff"]))
    if c == "Anderson":
        dim = spec.get("dimension")
        return darsia.AndersonAcceleration(dimension=tuple(dim) if isinstance(dim, list) else dim,
                                           depth=spec["depth"], restart=spec.get("restart"))
    if c == "TVD":
        kw = dict(method=spec["method"], weight=spec["weight"], max_num_iter=spec["max_num_iter"], eps=spec["eps"])
        if spec["method"] == "heterogeneous bregman":
            kw.update(omega=spec.get("omega", 1.0))
            if spec.get("regularization") is not None:
                # NOTE: TVD reads this keyword without removing it and split_bregman_tvd rejects it (TypeError in
                # history and reference alike); kept as a rare input, counted by probe both-raised
                kw["regularization"] = spec["regularization"]
            if spec.get("x0"):
                # documented warm start (image and split-Bregman variables), given once at construction
                shp = tuple(spec["x0"]["shape"])
                kw["x0"] = (arr_from(spec["x0"]), np.zeros(shp + (len(shp),)), np.zeros(shp + (len(shp),)))
        return darsia.TVD(**kw)
    if c == "W1":
        return w1.build(spec["cfg"])
    raise HarnessError(f"unknown object class {c}")


def apply_params(obj, params):
    if params is not None:
        obj.update_params(dim=params["dim"], mass_coeff=coeff(params["mass"]), diffusion_coeff=coeff(params["diff"]))


def pick_solver(op, objs):
    s = op.get("solver", "default")
    return None if s == "default" else objs[s]


ADAPT = {"every-1": lambda it: True, "every-2": lambda it: it % 2 == 0}


def exec_op(op, objs):
    """Execute one operation of the alphabet; returns its result (arrays / floats only)."""
    k = op["op"]
    if k == "H1":
        kw = dict(mu=op["mu"], omega=op["omega"], dim=op["dim"])
        s = pick_solver(op, objs)
        if s is not None:
            kw["solver"] = s
        r = darsia.H1_regularization(img_from(op["img"]), **kw)
        return r.img if isinstance(r, darsia.Image) else r
    if k == "SBTVD":
        kw = dict(mu=op["mu"], omega=op["omega"], ell=op.get("ell"), dim=op["dim"], max_num_iter=op["iters"],
                  eps=op.get("eps"), isotropic=op.get("isotropic", False))
        if op.get("adaptive"):
            kw["adaptive"] = ADAPT[op["adaptive"]]
        s = pick_solver(op, objs)
        if s is not None:
            kw["solver"] = s
        return darsia.split_bregman_tvd(arr_from(op["img"]), **kw)
    if k == "TVD":
        if op.get("obj"):
            r = objs[op["obj"]](img_from(op["img"]))
        else:
            kw = dict(method=op["method"], weight=op["weight"], max_num_iter=op["iters"], eps=op.get("eps", 2e-4))
            if op["method"] == "heterogeneous bregman":
                kw.update(omega=op.get("omega", 1.0))
                if op.get("regularization") is not None:
                    kw["regularization"] = op["regularization"]
            r = darsia.tvd(img_from(op["img"]), **kw)
        return r.img if isinstance(r, darsia.Image) else r
    if k == "JACOBI":
        return objs[op["obj"]](arr_from(op["x0"]), arr_from(op["rhs"]), h=op["h"])
    if k == "MG":
        return objs[op["obj"]](arr_from(op["x0"]), arr_from(op["rhs"]))
    if k == "UPDATE":
        objs[op["obj"]].update_params(dim=op.get("dim"), mass_coeff=coeff(op.get("mass")),
                                      diffusion_coeff=coeff(op.get("diff")))
        return None
    if k == "ANDERSON":
        aa = objs[op["obj"]]
        g = np.random.default_rng(70_000 + op["map"])
        d = op["d"]
        A = g.uniform(-0.4, 0.4, size=(d, d)) / np.sqrt(d)
        b = g.uniform(-1, 1, size=d)
        x = g.uniform(-1, 1, size=d)
        if op.get("tensor"):
            x = x.reshape(op["tensor"])
        for it in range(op.get("start", 0), op.get("start", 0) + op["n"]):
            xf = np.ravel(x)
            gx = A @ np.tanh(xf) + b
            fx = gx - xf
            if op.get("tensor"):
                gx, fx = gx.reshape(op["tensor"]), fx.reshape(op["tensor"])
            x = aa(gx, fx, it)
        return np.array(x)
    if k == "W1BAD":
        # a distance call whose multigrid set-up fails (user amg_options name a smoother pyamg cannot set up)
        cfg = dict(objs[op["obj"] + "#cfg"])
        cfg.update(linear_solver="amg", formulation="pressure", amg_options={"presmoother": "no_such_smoother", "max_coarse": 2})
        cfg["pair"] = op["pair"]
        a, b = w1.mass_pair(cfg)
        bad = w1.build(cfg)
        import warnings
        with warnings.catch_warnings():
            warnings.simplefilter("ignore")
            bad(w1.make_image(a, cfg), w1.make_image(b, cfg))
        return None
    if k == "W1F":
        # the unified access darsia.wasserstein_distance(m1, m2, method, options=...): no object is handed in, so the
        # result may depend on nothing but this call's arguments (nested solver options included)
        cfg = dict(objs[op["obj"] + "#cfg"])
        cfg["pair"] = op["pair"]
        cfg["ls_options"] = {**cfg.get("ls_options", {}), **op.get("ls", {})}
        cfg.pop("weight", None)
        a, b = w1.mass_pair(cfg)
        import warnings
        with warnings.catch_warnings():
            warnings.simplefilter("ignore")
            dist, info = darsia.wasserstein_distance(w1.make_image(a, cfg), w1.make_image(b, cfg),
                                                     method="newton" if cfg["method"] == "newton" else "bregman",
                                                     options=w1.make_options(cfg))
        return (float(dist), bool(info["converged"]), np.array(info["flux"]), np.array(info["pressure"]))
    if k == "W1":
        cfg = dict(objs[op["obj"] + "#cfg"])
        cfg["pair"] = op["pair"]
        a, b = w1.mass_pair(cfg)
        import warnings
        with warnings.catch_warnings():
            warnings.simplefilter("ignore")
            dist, info = objs[op["obj"]](w1.make_image(a, cfg), w1.make_image(b, cfg))
        return (float(dist), bool(info["converged"]), np.array(info["flux"]), np.array(info["pressure"]))
    raise HarnessError(f"unknown op {k}")


# ----------------------------------------------------------------------------- environment / faults
class _ScipyLstsqProxy:
    """Stand-in for the module attribute `sp` of darsia.utils.andersonacceleration: the k-th least-squares solve of the
    Anderson mixing inside a distance call breaks down (LinAlgError), as it does for rank-deficient histories."""

    class _Linalg:
        def __init__(self, outer):
            self._o = outer

        def __getattr__(self, n):
            return getattr(self._o._real.linalg, n)

        def lstsq(self, *a, **k):
            o = self._o
            i = o.count
            o.count += 1
            if i == o.at and not o.fired:
                o.fired = True
                raise np.linalg.LinAlgError("SVD did not converge in Linear Least Squares (injected)")
            return o._real.linalg.lstsq(*a, **k)

    def __init__(self, real, at):
        self._real, self.at, self.count, self.fired = real, at, 0, False
        self.linalg = _ScipyLstsqProxy._Linalg(self)

    def __getattr__(self, n):
        return getattr(self._real, n)


class _Interrupt:
    """Class-level wrapper on Jacobi._neighbor_accumulation raising KeyboardInterrupt at the n-th call."""

    def __init__(self):
        self.orig = darsia.Jacobi._neighbor_accumulation
        self.count = 0
        self.at = None
        self.fired = False
        me = self

        def wrapped(self_, im):
            if me.at is not None:
                i = me.count
                me.count += 1
                if i == me.at:
                    me.fired = True
                    me.at = None
                    raise KeyboardInterrupt("injected interrupt inside solver loop")
            return me.orig(self_, im)
        darsia.Jacobi._neighbor_accumulation = wrapped
        # second hook: the inner linear solve of the distance objects (class level, all objects)
        import darsia.measure.wasserstein as wm
        if not hasattr(wm.VariationalWassersteinDistance, "linear_solve"):
            raise HarnessError("seam missing: VariationalWassersteinDistance.linear_solve")
        self.orig_ls = wm.VariationalWassersteinDistance.linear_solve
        self.where = "jacobi"

        def wrapped_ls(self_, *a, **k):
            if me.at is not None and me.where == "w1":
                i = me.count
                me.count += 1
                if i == me.at:
                    me.fired = True
                    me.at = None
                    raise KeyboardInterrupt("injected interrupt inside the distance computation")
            return me.orig_ls(self_, *a, **k)
        wm.VariationalWassersteinDistance.linear_solve = wrapped_ls
        # third hook: the restriction operator of the multigrid solver (residuals and, for array coefficients, the
        # coefficients themselves are restricted with it) - an allocation failure while descending a level
        if not hasattr(darsia.MG, "restriction"):
            raise HarnessError("seam missing: MG.restriction")
        self.orig_restr = darsia.MG.restriction

        def wrapped_restr(self_, x):
            if me.at is not None and me.where == "restrict":
                i = me.count
                me.count += 1
                if i == me.at:
                    me.fired = True
                    me.at = None
                    raise MemoryError("injected allocation failure inside MG.restriction")
            return me.orig_restr(self_, x)
        darsia.MG.restriction = wrapped_restr
        orig_na = wrapped

        def gated(self_, im):
            if me.where != "jacobi":
                return me.orig(self_, im)
            return orig_na(self_, im)
        darsia.Jacobi._neighbor_accumulation = gated

    def arm(self, n, where="jacobi"):
        self.count, self.at, self.fired, self.where = 0, n, False, where

    def disarm(self):
        self.at = None


def apply_env(e, clock):
    if e["kind"] == "rng-skew":
        np.random.seed(e["value"] % 2**32)
        random.seed(e["value"])
        cv2.setRNGSeed(e["value"] % 2**31)
    elif e["kind"] == "tracemalloc-flip":
        tracemalloc.stop() if tracemalloc.is_tracing() else tracemalloc.start()
    elif e["kind"] == "clock-jump":
        clock.now += float(e["value"] % 100000) - 50000.0  # forwards or backwards


def install_clock():
    import darsia.measure.wasserstein as wm
    clock = w1.SimClock()
    wm.time = clock  # the only clock the distance objects read
    return clock


def base_rng_seed(case) -> int:
    return (case.get("seed", 0) * 1009 + 7) % 2**32


def child_history(case, schedule, with_faults=True, reseed=None):
    """Runs in a pristine fork: the whole history. Returns list of (result, exc, interrupted).
    ``reseed`` maps a step index to the numpy RNG seed to put in force before that step (used by the permuted run,
    so that every call sees the RNG state that was in force for it in the original interleaving)."""
    install_jit_seam()
    clock = install_clock()
    objs = {}
    for name, spec in case["objects"].items():
        objs[name] = build_object(spec)
        if spec["cls"] == "W1":
            objs[name + "#cfg"] = spec["cfg"]
    intr = _Interrupt()
    pcs = {c: 0 for c in case["clients"]}
    out = []
    # RNG seam: the numpy global RNG (read by pyamg's set-up) is seeded ONCE per process by the simulator and again by
    # every rng-skew perturbation; no library call may move it, so a pristine reference seeded with the value in
    # force must see the same state
    np.random.seed(base_rng_seed(case))
    amg_proxy = amg_real = None
    sp_proxy = sp_real = None
    for step, c in enumerate(schedule):
        op = case["clients"][c][pcs[c]]
        pcs[c] += 1
        if reseed and step in reseed:
            np.random.seed(reseed[step])
        if with_faults:
            for e in case.get("env", []):
                if e["before_step"] == step:
                    apply_env(e, clock)
            for f in case.get("faults", []):
                if f["step"] == step and f.get("kind") == "amg-setup-raise" and op["op"] == "W1":
                    import darsia.measure.wasserstein as wm
                    from engines.c17_no_mutation import _PyamgProxy
                    amg_proxy = _PyamgProxy(wm.pyamg, f["occurrence"])
                    amg_real, wm.pyamg = wm.pyamg, amg_proxy
                elif f["step"] == step and f.get("kind") == "lstsq-raise":
                    if op["op"] == "W1":
                        import darsia.utils.andersonacceleration as am
                        if not hasattr(am, "sp"):
                            raise HarnessError("seam missing: darsia.utils.andersonacceleration.sp")
                        sp_proxy = _ScipyLstsqProxy(am.sp, f["occurrence"])
                        sp_real, am.sp = am.sp, sp_proxy
                elif f["step"] == step:
                    intr.arm(f["occurrence"], "w1" if op["op"] == "W1" else f.get("site", "jacobi"))
        try:
            r, exc = exec_op(op, objs), None
        except KeyboardInterrupt:
            r, exc = None, "KeyboardInterrupt"
        except Exception as e:  # noqa
            r, exc = None, type(e).__name__
        fired = intr.fired
        if sp_proxy is not None:
            import darsia.utils.andersonacceleration as am
            am.sp = sp_real
            fired = fired or sp_proxy.fired  # the faulted step promises nothing about its own value
            sp_proxy = None
        if amg_proxy is not None:
            import darsia.measure.wasserstein as wm
            wm.pyamg = amg_real
            fired = fired or amg_proxy.fired  # the faulted step promises nothing about its own value
            amg_proxy = None
        intr.disarm()
        intr.fired = False
        out.append((r, exc, fired))
        if tracemalloc.is_tracing() and op["op"] == "W1":
            tracemalloc.stop()
    return out


def child_reference(case, op, obj_spec, params, seed_rng):
    """Runs in a pristine fork: only this call, on an object built from its constructor arguments and
    given the parameters set for it."""
    install_jit_seam()
    install_clock()
    global NEIGHBOUR_SALT
    NEIGHBOUR_SALT = 1
    objs = {}
    # The reference object is CONSTRUCTED with the parameters that were set for the history object (not
    # constructed with the original arguments and then updated), so that a parameter update that fails to
    # reach part of the object (e.g. a smoother) cannot hide in both executions alike.
    if obj_spec is not None and obj_spec["cls"] in ("Jacobi", "MG") and params is not None:
        obj_spec = {**obj_spec, "dim": params["dim"], "mass": params["mass"], "diff": params["diff"]}
    if op.get("obj"):
        objs[op["obj"]] = build_object(obj_spec)
        if obj_spec["cls"] == "W1":
            objs[op["obj"] + "#cfg"] = obj_spec["cfg"]
    s = op.get("solver", "default")
    if s != "default":
        objs[s] = build_object(obj_spec)
    np.random.seed(seed_rng % 2**32)
    try:
        return exec_op(op, objs), None
    except Exception as e:  # noqa
        return None, type(e).__name__


# ----------------------------------------------------------------------------- comparison
def _flat(r):
    if r is None:
        return []
    if isinstance(r, tuple):
        return [np.asarray(x) for x in r]
    return [np.asarray(r)]


def same(a, b, rel):
    fa, fb = _flat(a), _flat(b)
    if len(fa) != len(fb):
        return False, "arity"
    worst = 0.0
    for x, y in zip(fa, fb):
        if x.shape != y.shape or x.dtype != y.dtype:
            return False, f"shape/dtype {x.shape}{x.dtype} vs {y.shape}{y.dtype}"
        if x.dtype.kind in "biu":
            if not np.array_equal(x, y):
                return False, "integer arrays differ"
            continue
        xf, yf = x.astype(float), y.astype(float)
        fin = np.isfinite(xf) & np.isfinite(yf)
        if not np.array_equal(np.isfinite(xf), np.isfinite(yf)):
            return False, "finiteness differs"
        if fin.any():
            sc = float(np.max(np.abs(yf[fin]))) + 1e-300
            d = float(np.max(np.abs(xf[fin] - yf[fin]))) / sc
            worst = max(worst, d)
    return worst <= rel, worst


class C16Engine(Engine):
    prop = "C16"
    name = "c16_hidden_state"
    level = "exploration"
    quick_runs = 1200
    quick_budget_s = 150.0
    thorough_budget_s = 1500.0
    chunk = 10
    run_timeout_s = 900.0
    determinism_sample = 8
    needs_pristine_parent = True
    rule = ("One run = 1-3 clients with programs of <= 4 result-bearing calls (H1 / split-Bregman TVD / TVD / Jacobi / MG / "
            "update_params / Anderson loop / Wasserstein distance) on their own explicit objects and the shared library "
            "defaults, interleaved by a seeded scheduler with environment perturbations and interrupt faults; every "
            "result is compared with the same call issued first in a pristine forked process. Non-trivial = the checked "
            "call shares an object or a library default with an EARLIER call issued with different parameters / inputs; "
            "distinct = distinct (op kind sequence on that object, which of mu/omega/ell/h/shape/params/pair differ, "
            "default-vs-explicit pattern, faulted-before flag).")
    components_real = ["darsia.Jacobi, darsia.MG, darsia.Solver.update_params", "darsia.H1_regularization, darsia.split_bregman_tvd, darsia.TVD / tvd",
                       "darsia.AndersonAcceleration", "Wasserstein Newton/Bregman objects (direct + AMG back-ends)",
                       "numba (real compiler), skimage, scipy, pyamg", "os.fork of a process that only imported darsia (pristine process)"]
    components_stub = ["name 'njit' in darsia.restoration.split_bregman_tvd -> memoising decorator around the real numba.njit (compile once per process)",
                       "Jacobi._neighbor_accumulation wrapped to raise KeyboardInterrupt at the n-th call (interrupt fault)",
                       "MG.restriction wrapped to raise MemoryError at the n-th call (allocation failure while descending a level)",
                       "numpy/python/OpenCV global RNGs reseeded, tracemalloc flipped, wasserstein clock skewed between steps"]
    assumptions = ["'pristine process' = fork of a process that imported darsia (and pre-compiled the numba shrink kernel through an explicit solver object) and never executed another library call; a sample is re-run in a cold interpreter by the determinism check",
                   "parameters 'set for' an explicit solver are those of its constructor merged with every later update_params, including the documented update_params performed by H1/split-Bregman on a solver passed to them",
                   "tolerances: 1e-12 relative for Jacobi/MG/H1/TVD/Anderson/direct-backed distances, max(1e-7, 100*linear tolerance) for AMG-backed distances",
                   "diagnostic fields (timings, memory) are not part of a result"]

    def check_seams(self):
        for n in ("Jacobi", "MG", "H1_regularization", "split_bregman_tvd", "TVD", "tvd", "AndersonAcceleration"):
            if not hasattr(darsia, n):
                raise HarnessError(f"seam missing: darsia.{n}")
        if SBT_MOD is None or not hasattr(SBT_MOD, "njit"):
            raise HarnessError("seam missing: darsia.restoration.split_bregman_tvd.njit")
        if not hasattr(darsia.Jacobi, "_neighbor_accumulation"):
            raise HarnessError("seam missing: Jacobi._neighbor_accumulation")
        # warm the JIT memo through an explicit solver object (library defaults stay untouched)
        install_jit_seam()
        if not _NJIT_MEMO:
            darsia.split_bregman_tvd(np.full((2, 2), 0.5), max_num_iter=1, isotropic=True,
                                     solver=darsia.Jacobi(mass_coeff=1.0, diffusion_coeff=1.0))

    # ------------------------------------------------------------------ generation
    def _img(self, r, dim=2, allow_chan=True, float_only=False):
        shape = [r.randint(3, 7) for _ in range(dim)]
        spec = {"id": r.randint(0, 9999), "shape": shape}
        if allow_chan and r.random() < 0.25:
            spec["chan"] = r.choice([2, 3])
        dt = "float64" if float_only else r.choice(["float64", "float64", "float32", "uint8"])
        spec["dtype"] = dt
        if r.random() < 0.3:
            spec["form"] = "image"
        if r.random() < 0.2:
            spec["slab"] = r.randint(0, 999)  # the argument is a frame of a larger caller-owned array (see arr_from)
        return spec

    def _gen_objects(self, r, cname, alphabet):
        objs = {}
        if "solver" in alphabet:
            objs[f"{cname}.j0"] = {"cls": "Jacobi", "maxiter": r.randint(1, 4), "tol": r.choice([None, None, 1e-3]),
                                   "dim": 2, "mass": r.choice([0.5, 1.0, 2.0]), "diff": r.choice([0.25, 1.0, 3.0])}
            if r.random() < 0.7:
                objs[f"{cname}.m0"] = {"cls": "MG", "depth": r.randint(0, 1), "smoother_iterations": r.randint(1, 3),
                                       "maxiter": r.randint(1, 2), "tol": None, "dim": 2,
                                       "mass": r.choice([0.5, 1.0, 2.0]), "diff": r.choice([0.25, 1.0, 3.0])}
        if "hetero" in alphabet:
            # array coefficients (separate swarm dimension): all direct solves on these objects use this shape
            shp = [r.randint(4, 9), r.randint(4, 9)]
            for n in (f"{cname}.j0", f"{cname}.m0"):
                if n in objs:
                    objs[n]["hshape"] = shp
                    for key in ("mass", "diff"):
                        if r.random() < 0.7:
                            objs[n][key] = {"id": r.randint(0, 999), "shape": shp}
        if "anderson" in alphabet:
            objs[f"{cname}.a0"] = {"cls": "Anderson", "depth": r.randint(1, 3), "restart": r.choice([None, 2, 3, 4]),
                                   "dimension": None}
        if "tvd" in alphabet:
            objs[f"{cname}.t0"] = {"cls": "TVD", "method": r.choice(["chambolle", "anisotropic bregman", "isotropic bregman",
                                                                      "heterogeneous bregman"]),
                                   "weight": r.choice([0.05, 0.1, 0.5]), "max_num_iter": r.randint(1, 4), "eps": 1e-6,
                                   "omega": r.choice([0.5, 1.0]), "regularization": r.choice([None, None, None, None, None, 0.5, 2.0])}
            if objs[f"{cname}.t0"]["method"] == "heterogeneous bregman" and r.random() < 0.5:
                objs[f"{cname}.t0"]["x0"] = {"id": r.randint(0, 9999), "shape": [r.randint(3, 7), r.randint(3, 7)]}
        if "w1" in alphabet:
            ls = r.choice(["direct", "direct", "amg", "amg", "cg"])
            form = "pressure" if ls != "direct" else r.choice(["pressure", "full"])
            dim = r.choice([1, 2, 2])
            shape = [r.randint(3, 6)] if dim == 1 else [r.randint(2, 4), r.randint(2, 4)]
            cfg = {"method": r.choice(["newton", "bregman", "bregman-adaptive"]), "formulation": form, "linear_solver": ls,
                   "shape": shape, "voxel_size": [r.choice([0.5, 1.0, 2.0]) for _ in range(dim)],
                   "l1_mode": r.choice(sorted(w1.L1)), "mobility_mode": r.choice(["CELL_BASED", "CELL_BASED_ARITHMETIC", "CELL_BASED_HARMONIC"]),
                   "num_iter": r.randint(1, 5), "aa_depth": r.choice([0, 0, 1, 2, 3]), "aa_restart": r.choice([None, 2, 3]),
                   "pair": {"kind": "dense", "id": 0}, "tol_residual": 1e-300, "tol_increment": 1e-300, "tol_distance": 1e-300}
            if cfg["aa_depth"] == 0:
                cfg["aa_restart"] = None
            if r.random() < 0.35:
                # stopping criteria that can actually end the iteration before num_iter (relative to the call's own history)
                cfg.update(num_iter=r.randint(6, 14), tol_residual=r.choice([1e-1, 1.0]), tol_increment=r.choice([1e-1, 1e-2]),
                           tol_distance=r.choice([1e-2, 1e-3, 1e-4]))
            if r.random() < 0.06:
                # long runs: block-shaped masses on a larger grid with the library's usual tolerances; tens of Newton
                # iterations amplify last-bit differences of a linear solve to 1e-3 in the distance (D29)
                cfg.update(shape=[r.randint(6, 10), r.randint(7, 12)], voxel_size=[r.choice([0.05, 0.1]), r.choice([0.05, 0.1])],
                           num_iter=r.randint(40, 120), tol_residual=1e-8, tol_increment=1e-5, tol_distance=1e-8,
                           method=r.choice(["newton", "newton", "bregman"]), linear_solver="direct",
                           formulation=r.choice(["pressure", "pressure", "full"]), aa_depth=r.choice([0, 0, 1]),
                           l1_mode=r.choice(["constant_cell_projection", "raviart_thomas"]), mobility_mode="CELL_BASED", long=True)
                ls = "direct"
            if r.random() < 0.5:
                cfg["L"] = r.choice([0.5, 2.0, 10.0])
            if cfg["method"] == "bregman-adaptive":
                cfg["update_every"] = r.choice([1, 2])
            if ls != "direct":
                cfg["max_coarse"] = r.choice([2, 3, 4])
                cfg["ls_options"] = r.choice([{}, {"atol": 1e-10, "rtol": 1e-10}])
            objs[f"{cname}.w0"] = {"cls": "W1", "cfg": cfg}
        return objs

    def _gen_op(self, r, cname, objs, alphabet):
        kinds = []
        if "solver" in alphabet:
            kinds += ["H1", "H1", "H1", "SBTVD", "SBTVD", "JACOBI", "JACOBI", "UPDATE"]
            if f"{cname}.m0" in objs:
                kinds += ["MG", "MG"]
        if "anderson" in alphabet:
            kinds += ["ANDERSON", "ANDERSON"]
        if "tvd" in alphabet:
            kinds += ["TVD", "TVD"]
        if "w1" in alphabet:
            kinds += ["W1", "W1", "W1"]
            if objs[f"{cname}.w0"]["cfg"]["linear_solver"] != "direct":
                kinds += ["W1BAD"]
        k = r.choice(kinds)
        solvers = ["default", "default", f"{cname}.j0"] + ([f"{cname}.m0"] if f"{cname}.m0" in objs else [])
        def fit(op):
            # keep calls that can only raise rare (probe both-raised): integer images make H1 raise in skimage's range
            # check, and a multigrid solver needs 2**(depth+1) voxels per axis
            if op["img"].get("dtype") == "uint8" and r.random() < 0.8:
                op["img"]["dtype"] = "float64"
            if op["solver"].endswith(".m0") and r.random() < 0.9:
                lo = 2 ** (objs[op["solver"]]["depth"] + 1)
                op["img"]["shape"] = [max(v, lo) for v in op["img"]["shape"]]
            return op
        if k == "H1":
            dim = r.choice([2, 2, 2, 3])
            return fit({"op": "H1", "img": self._img(r, dim=dim if dim == 2 else 3, allow_chan=dim == 2),
                        "mu": r.choice([0.05, 0.1, 0.9, 2.0, 5.0]), "omega": r.choice([0.2, 1.0, 3.0]), "dim": dim,
                        "solver": r.choice(solvers) if dim == 2 else r.choice(["default", f"{cname}.j0"])})
        if k == "SBTVD":
            op = {"op": "SBTVD", "img": self._img(r, allow_chan=False, float_only=True), "mu": r.choice([0.05, 0.2, 1.0]),
                  "omega": r.choice([0.5, 1.0, 2.0]), "ell": r.choice([None, 0.5, 2.0]), "dim": 2, "iters": r.randint(1, 3),
                  "isotropic": r.random() < 0.4, "eps": r.choice([None, None, 1e-3]), "solver": r.choice(solvers)}
            op["img"].pop("form", None)
            if r.random() < 0.2:
                op["adaptive"] = r.choice(["every-1", "every-2"])
                if op["isotropic"] and r.random() < 0.8:
                    op["isotropic"] = False  # the isotropic shrinkage has no compiled variant for array-valued mu / ell
            return fit(op)
        if k == "JACOBI":
            shp = objs[f"{cname}.j0"].get("hshape") or [r.randint(3, 6), r.randint(3, 6)]
            if not objs[f"{cname}.j0"].get("hshape") and r.random() < 0.25:
                # three-dimensional problem on the same solver object: needs its dimension parameter updated first
                shp = [r.randint(2, 4), r.randint(2, 4), r.randint(2, 4)]
            return {"op": "JACOBI", "obj": f"{cname}.j0", "x0": {"id": r.randint(0, 9999), "shape": shp},
                    "rhs": {"id": r.randint(0, 9999), "shape": shp}, "h": r.choice([0.5, 1.0, 1.0, 2.0])}
        if k == "MG":
            d = objs[f"{cname}.m0"]["depth"]
            lo = 2 ** (d + 1)
            shp = objs[f"{cname}.m0"].get("hshape") or [r.randint(lo, lo + 4), r.randint(lo, lo + 4)]
            return {"op": "MG", "obj": f"{cname}.m0", "x0": {"id": r.randint(0, 9999), "shape": shp},
                    "rhs": {"id": r.randint(0, 9999), "shape": shp}}
        if k == "UPDATE":
            tgt = r.choice([n for n in (f"{cname}.j0", f"{cname}.m0") if n in objs])
            op = {"op": "UPDATE", "obj": tgt}
            for key, vals in (("dim", [2]), ("mass", [0.5, 1.0, 4.0]), ("diff", [0.1, 1.0, 2.5])):
                if r.random() < 0.6:
                    op[key] = r.choice(vals)
            return op
        if k == "ANDERSON":
            d = objs[f"{cname}.a0"].setdefault("_d", r.randint(2, 8)) if r.random() < 0.7 else r.randint(2, 8)
            op = {"op": "ANDERSON", "obj": f"{cname}.a0", "n": r.randint(3, 9), "d": d, "map": r.randint(0, 9999)}
            R = objs[f"{cname}.a0"].get("restart")
            if R and r.random() < 0.5:
                op["start"] = R * r.randint(1, 2)  # the caller's iteration counter starts at a restart boundary
            return op
        if k == "TVD":
            def tvd_img():
                im = self._img(r, allow_chan=False, float_only=True)
                if r.random() < 0.2:
                    im["shape"][r.randint(0, 1)] = 1  # a single-voxel axis (a column or row image)
                elif r.random() < 0.12:
                    im["shape"] = [r.randint(3, 9)]  # a one-dimensional signal
                    im.pop("form", None)
                if r.random() < 0.4:
                    im["slab"] = r.randint(0, 999)
                    im.pop("form", None)
                return im
            if r.random() < 0.5:
                im = tvd_img()
                if objs[f"{cname}.t0"].get("x0"):
                    im["shape"] = list(objs[f"{cname}.t0"]["x0"]["shape"])  # a warm start fixes the image shape
                return {"op": "TVD", "obj": f"{cname}.t0", "img": im}
            return {"op": "TVD", "img": tvd_img(),
                    "method": r.choice(["chambolle", "anisotropic bregman", "isotropic bregman", "heterogeneous bregman"]),
                    "weight": r.choice([0.05, 0.1, 0.5]), "iters": r.randint(1, 4), "eps": 1e-6,
                    "omega": r.choice([0.5, 1.0]), "regularization": r.choice([None, None, None, None, None, 0.5, 2.0])}
        if k == "W1BAD":
            return {"op": "W1BAD", "obj": f"{cname}.w0", "pair": {"kind": "dense", "id": r.randint(0, 9999)}}
        if k == "W1":
            pair = {"kind": r.choice(["dense", "dense", "compact"]), "id": r.randint(0, 9999)}
            if objs[f"{cname}.w0"]["cfg"].get("long"):
                pair["kind"] = "blocks"
            if r.random() < 0.3:
                pair["scale"] = r.choice([0.125, 8.0, 64.0])
            if r.random() < 0.3:
                t = r.choice([1e-3, 1e-7, 1e-11])
                return {"op": "W1F", "obj": f"{cname}.w0", "pair": pair, "ls": {"atol": t, "rtol": t}}
            return {"op": "W1", "obj": f"{cname}.w0", "pair": pair}
        raise HarnessError(k)

    def generate(self, seed: int, tier: str) -> dict:
        cfg = substream(seed, "config")
        wl = substream(seed, "workload")
        sch = substream(seed, "schedule")
        fl = substream(seed, "faults")
        env = substream(seed, "env")
        # swarm: which parts of the alphabet exist in this run
        alphabet = set(cfg.choice([["solver"], ["solver"], ["solver"], ["solver", "tvd"], ["tvd"], ["tvd"], ["anderson"], ["w1"], ["w1"],
                                   ["solver", "anderson"], ["solver", "w1"], ["solver", "hetero"], ["solver", "hetero"]]))
        ncl = cfg.choice([1, 1, 2, 2, 3])
        objects, clients = {}, {}
        for c in range(ncl):
            cn = f"c{c}"
            o = self._gen_objects(cfg, cn, alphabet)
            objects.update(o)
            n = wl.randint(2, 5) if ncl == 1 else wl.randint(1, 4)
            if tier == "thorough":
                n += wl.randint(0, 2)
            clients[cn] = [self._gen_op(wl, cn, o, alphabet) for _ in range(n)]
        if "w1" in alphabet and ncl >= 2 and cfg.random() < 0.6:
            # two distance objects on grids of the SAME shape but different voxel sizes / weights / methods in one
            # process (state shared through module-level caches would show here)
            twin = copy.deepcopy(objects["c0.w0"])
            twin["cfg"]["voxel_size"] = [cfg.choice([0.25, 0.5, 1.0, 2.0, 4.0]) for _ in twin["cfg"]["shape"]]
            twin["cfg"]["method"] = cfg.choice(["newton", "bregman"])
            twin["cfg"].pop("update_every", None)
            if cfg.random() < 0.5:
                twin["cfg"]["weight"] = {"kind": "const", "val": cfg.choice([0.5, 2.0])}
            objects["c1.w0"] = twin
        if "w1" in alphabet and ncl >= 2 and objects["c0.w0"]["cfg"]["linear_solver"] != "direct" and cfg.random() < 0.5:
            # another client uses the library's DEFAULT multigrid options on a grid with more than 100 cells (so that the
            # default max_coarse=100 still yields a hierarchy), next to an object with user amg_options
            big = copy.deepcopy(objects["c0.w0"])
            big["cfg"].update(shape=[cfg.choice([11, 12]), cfg.choice([10, 11])], voxel_size=[1.0, 0.5], amg_default=True,
                              num_iter=cfg.randint(1, 2), linear_solver=cfg.choice(["amg", "cg"]), formulation="pressure",
                              ls_options={"atol": 1e-10, "rtol": 1e-10})
            big["cfg"].pop("max_coarse", None)
            objects["c1.w0"] = big
        order = [c for c, p in clients.items() for _ in p]
        sch.shuffle(order)
        faults = []
        if ("solver" in alphabet or "w1" in alphabet) and cfg.random() < 0.25:
            faults.append({"step": fl.randint(0, len(order) - 1), "occurrence": fl.randint(0, 6), "kind": "solve-interrupt"})
            mg_steps = [i for i, c_ in enumerate(order) if self._op_at(clients, order, i)["op"] == "MG"]
            if "hetero" in alphabet and mg_steps and fl.random() < 0.7:
                # MemoryError inside MG.restriction (k-th residual / coefficient restriction of that call)
                faults[-1].update(site="restrict", step=fl.choice(mg_steps), occurrence=fl.choice([0, 1, 2, 2, 2, 3, 4, 5]))
        elif "w1" in alphabet and cfg.random() < 0.3:
            # the k-th multigrid set-up of a distance call fails (after drawing its random vectors); inside the iteration
            # the library handles the failure and the call returns
            faults.append({"step": fl.randint(0, len(order) - 1), "occurrence": fl.randint(1, 3), "kind": "amg-setup-raise"})
            w1_steps = [i for i, c_ in enumerate(order) if self._op_at(clients, order, i)["op"] == "W1"
                        and objects[self._op_at(clients, order, i)["obj"]]["cfg"].get("aa_depth")]
            if w1_steps and fl.random() < 0.6:
                # the k-th least-squares solve of the Anderson mixing of an accelerated distance call breaks down
                faults[-1] = {"step": fl.choice(w1_steps), "occurrence": fl.randint(0, 2), "kind": "lstsq-raise"}
        envp = []
        if cfg.random() < 0.5:
            for _ in range(env.randint(1, 3)):
                envp.append({"before_step": env.randint(0, len(order) - 1),
                             "kind": env.choice(["rng-skew", "rng-skew", "tracemalloc-flip", "clock-jump"]),
                             "value": env.randint(0, 2**31 - 1)})
        return {"engine": self.name, "seed": seed, "objects": objects, "clients": clients, "schedule": order,
                "faults": faults, "env": envp}

    @staticmethod
    def _op_at(clients, order, i):
        c = order[i]
        return clients[c][order[:i].count(c)]

    # ------------------------------------------------------------------ model of 'parameters set for it'
    @staticmethod
    def _model_step(model, tainted, op, objects):
        """Track the parameters that calls have set on explicit solver objects (documented behaviour)."""
        k = op["op"]
        if k == "UPDATE":
            m = model[op["obj"]]
            for key in ("dim", "mass", "diff"):
                if op.get(key) is not None:
                    m[key] = op[key]
            if all(op.get(key) is not None for key in ("dim", "mass", "diff")):
                tainted.discard(op["obj"])
        elif k in ("H1", "SBTVD") and op.get("solver", "default") != "default":
            m = model[op["solver"]]
            m["dim"] = op["dim"]
            m["mass"] = op["omega"]
            m["diff"] = op["mu"] if k == "H1" else (op["ell"] if op.get("ell") is not None else 2 * op["mu"])
            if k == "SBTVD" and op.get("adaptive"):
                tainted.add(op["solver"])  # ell became data dependent; next direct use needs a full update first

    # ------------------------------------------------------------------ execution
    def execute(self, case: dict) -> Outcome:
        out = Outcome()
        out.event(seed=case.get("seed"))
        objects = case["objects"]
        hist = kernel.in_fork(child_history, case, case["schedule"], True, timeout=self.run_timeout_s)
        model = {n: {"dim": s["dim"], "mass": s["mass"], "diff": s["diff"]} for n, s in objects.items()
                 if s["cls"] in ("Jacobi", "MG")}
        tainted: set = set()
        pcs = {c: 0 for c in case["clients"]}
        seen: dict = {}       # shared-state key -> list of op descriptors seen so far
        faulted_objs: set = set()
        rng_in_force = base_rng_seed(case)
        rng_at_step: dict = {}
        for step, c in enumerate(case["schedule"]):
            op = case["clients"][c][pcs[c]]
            pcs[c] += 1
            res, exc, fired = hist[step]
            out.counters["op:" + op["op"]] += 1
            for e in case.get("env", []):
                if e["before_step"] == step:
                    out.counters["fault:env-" + e["kind"]] += 1
                    if e["kind"] == "rng-skew":
                        rng_in_force = e["value"] % 2**32
            rng_at_step[step] = rng_in_force
            target = op.get("obj") or (op.get("solver") if op.get("solver", "default") != "default" else None)
            state_key = target or ("<default:%s>" % op["op"] if op["op"] in ("H1", "SBTVD") else None)
            params_before = copy.deepcopy(model.get(target)) if target in model else None
            was_tainted = target in tainted
            self._model_step(model, tainted, op, objects)
            if fired:
                kinds = [f.get("kind") + (":" + f["site"] if f.get("site") else "") for f in case.get("faults", []) if f["step"] == step]
                out.counters["fault:" + (kinds[0] if kinds else "solve-interrupt")] += 1
                faulted_objs.add(state_key)
                out.event(client=c, op=op["op"], target=target, interrupted=True)
                continue
            out.event(client=c, op=op["op"], target=target, result=res, exc=exc)
            if op["op"] == "UPDATE":
                continue
            if op["op"] == "W1BAD":
                out.counters["fault:amg-setup-raises" if exc else "probe:amg-bad-options-accepted"] += 1
                continue
            desc = self._descriptor(op)
            prior = seen.setdefault(state_key, []) if state_key else []
            nontrivial = bool(prior) and any(p != desc for p in prior)
            if was_tainted and op["op"] in ("JACOBI", "MG"):
                out.counters["probe:skipped-after-adaptive"] += 1
                prior.append(desc)
                continue
            # ---- reference: the same call issued first in a pristine process
            ospec = objects.get(target)
            # RNG seam: the simulator decides the state of the numpy global RNG (consumed by pyamg's
            # spectral-radius estimates) at the start of every distance call - the same state for the
            # history step and for its pristine reference, so that hidden state is the only difference.
            rng_seed = rng_in_force
            rng_at_step[step] = rng_in_force
            ref_params = params_before if op["op"] in ("JACOBI", "MG") else (model.get(target) if target in model else None)
            ref, rexc = kernel.in_fork(child_reference, case, op, ospec, ref_params, rng_seed, timeout=self.run_timeout_s)
            out.counters["op:pristine-reference"] += 1
            tol = 1e-12
            iterative = op["op"] == "W1" and ospec["cfg"]["linear_solver"] != "direct"
            if iterative:
                tol = 1e-11  # same RNG state on both sides: iterative back-ends are deterministic (largest seen: 0)
                if exc is None and rexc is None and (case.get("seed", 0) + step) % 3 == 0:
                    # RNG dependence of a result: same call, pristine process, another RNG state.
                    ref2, rexc2 = kernel.in_fork(child_reference, case, op, ospec, ref_params, rng_seed * 7919 + 1,
                                                 timeout=self.run_timeout_s)
                    out.counters["fault:rng-skew-reference"] += 1
                    if rexc2 is None:
                        ok2, how2 = same(ref2, ref, 1e-11)
                        if isinstance(how2, float):
                            out.extra["max_rng_dependence"] = max(out.extra.get("max_rng_dependence", 0.0), how2)
                            if how2 > 1e-6:
                                out.counters["probe:rng-dependence-above-1e-6"] += 1
                        if not ok2:
                            out.violate("C16.G", f"W1:{ospec['cfg']['method']}:result-depends-on-global-rng", step,
                                        difference=how2, op=op, object=ospec)
            after_fault = state_key in faulted_objs
            oracle = "C16.R" if after_fault else "C16.F"
            culprit = self._culprit(op, ospec, prior, desc)
            if exc is not None and rexc is not None:
                out.counters[f"probe:both-raised({op['op']}:{exc})"] += 1  # a call that claims nothing: watch the share
            if (exc is None) != (rexc is None):
                out.violate(oracle, culprit, step, got_exc=exc, pristine_exc=rexc, op=op, object=ospec, earlier=prior[-3:])
            elif exc is None:
                ok, how = same(res, ref, tol)
                if isinstance(how, float):
                    out.extra["max_rel_diff"] = max(out.extra.get("max_rel_diff", 0.0), how)
                if not ok:
                    out.violate(oracle, culprit, step, difference=how, op=op, object=ospec, earlier=prior[-3:],
                                params_set=params_before if op["op"] in ("JACOBI", "MG") else model.get(target))
            if nontrivial:
                diffs = sorted({kk for p in prior for kk in desc if p.get(kk) != desc.get(kk)})
                def short(d):
                    return d["op"] + "(" + ",".join(f"{k}={d[k]}" for k in ("mu", "omega", "ell", "h", "dim", "adaptive", "pair")
                                                    if d.get(k) is not None) + ")"
                out.nontrivial.add(f"{'>'.join(short(p) for p in prior[-2:])}>{short(desc)}|{','.join(diffs)}|"
                                   f"{'default' if not target else target.split('.')[-1]}|{int(after_fault)}")
                out.counters["probe:shared-state-reused-with-different-params"] += 1
            if after_fault:
                out.counters["probe:call-after-interrupt"] += 1
            prior.append(desc)
        # ---- P: another interleaving of the same client programs
        if len(case["clients"]) >= 2 and not case.get("faults") and not out.violations:
            perm = sorted(case["schedule"])
            if perm != case["schedule"]:
                # every call of the permuted run starts from the RNG state that was in force for it originally
                pos = {}
                seen_c = {c: 0 for c in case["clients"]}
                for st, c in enumerate(case["schedule"]):
                    pos[(c, seen_c[c])] = st
                    seen_c[c] += 1
                reseed, seen_c = {}, {c: 0 for c in case["clients"]}
                for st2, c in enumerate(perm):
                    orig = pos[(c, seen_c[c])]
                    seen_c[c] += 1
                    reseed[st2] = rng_at_step.get(orig, base_rng_seed(case))
                h2 = kernel.in_fork(child_history, {**case, "env": []}, perm, False, reseed, timeout=self.run_timeout_s)
                out.counters["probe:permutation-checked"] += 1
                per = {c: [] for c in case["clients"]}
                for st, c in enumerate(case["schedule"]):
                    per[c].append((st, hist[st]))
                per2 = {c: [] for c in case["clients"]}
                for st, c in enumerate(perm):
                    per2[c].append(h2[st])
                for c in per:
                    for i, ((st, a), b) in enumerate(zip(per[c], per2[c])):
                        op = case["clients"][c][i]
                        if op["op"] in ("UPDATE", "W1BAD"):
                            continue
                        tol = 1e-12
                        if op["op"] == "W1" and objects[op["obj"]]["cfg"]["linear_solver"] != "direct":
                            tol = 1e-11
                        ok = (a[1] == b[1]) and (a[1] is not None or same(a[0], b[0], tol)[0])
                        if not ok:
                            out.violate("C16.P", self._culprit(op, objects.get(op.get("obj")), [], {}), st, client=c, index=i, op=op)
        return out

    @staticmethod
    def _descriptor(op):
        d = {"op": op["op"]}
        for k in ("mu", "omega", "ell", "dim", "h", "iters", "isotropic", "adaptive", "method", "weight", "n", "d"):
            if k in op:
                d[k] = op[k]
        for k in ("img", "x0", "rhs"):
            if k in op:
                d["shape"] = op[k]["shape"]
                d["input"] = op[k]["id"]
        if "pair" in op:
            d["pair"] = op["pair"]["id"]
        if "map" in op:
            d["input"] = op["map"]
        return d

    @staticmethod
    def _culprit(op, ospec, prior, desc):
        k = op["op"]
        if k in ("H1", "SBTVD"):
            s = op.get("solver", "default")
            kind = "default-solver" if s == "default" else ("explicit-" + s.split(".")[-1][0].upper())
            return f"{k}:{kind}"
        if k in ("JACOBI", "MG"):
            return f"{k}:explicit"
        if k == "W1":
            return f"W1:{ospec['cfg']['method']}:{ospec['cfg']['linear_solver']}" if ospec else "W1"
        if k == "TVD":
            return "TVD:" + ("object" if op.get("obj") else "function")
        return k

    # ------------------------------------------------------------------ shrinking
    def shrink_candidates(self, case):
        for c in list(case["clients"]):
            if len(case["clients"]) > 1:
                k = copy.deepcopy(case)
                del k["clients"][c]
                k["schedule"] = [x for x in k["schedule"] if x != c]
                yield self._gc(k)
        for c, prog in case["clients"].items():
            for j in range(len(prog)):
                if sum(len(p) for p in case["clients"].values()) <= 1:
                    break
                k = copy.deepcopy(case)
                del k["clients"][c][j]
                idx = [i for i, x in enumerate(k["schedule"]) if x == c]
                removed_step = idx[j]
                del k["schedule"][removed_step]
                for key, fld in (("faults", "step"), ("env", "before_step")):
                    new = []
                    for f in k.get(key, []):
                        if f[fld] == removed_step and key == "faults":
                            continue
                        if f[fld] > removed_step:
                            f[fld] -= 1
                        new.append(f)
                    k[key] = new
                if not k["clients"][c]:
                    del k["clients"][c]
                yield self._gc(k)
        for key in ("faults", "env"):
            for j in range(len(case.get(key, []))):
                k = copy.deepcopy(case)
                del k[key][j]
                yield k
        for c, prog in case["clients"].items():
            for j, op in enumerate(prog):
                for fld in ("adaptive", "eps", "ell"):
                    if op.get(fld) is not None:
                        k = copy.deepcopy(case)
                        k["clients"][c][j][fld] = None
                        yield k
                if op.get("isotropic"):
                    k = copy.deepcopy(case)
                    k["clients"][c][j]["isotropic"] = False
                    yield k
                for im in ("img", "x0", "rhs"):
                    if im in op:
                        spec = op[im]
                        for fld, val in (("chan", None), ("form", None), ("dtype", "float64")):
                            if spec.get(fld) not in (None, val):
                                k = copy.deepcopy(case)
                                if val is None:
                                    k["clients"][c][j][im].pop(fld)
                                else:
                                    k["clients"][c][j][im][fld] = val
                                yield k

    @staticmethod
    def _gc(case):
        used = set()
        for p in case["clients"].values():
            for op in p:
                for key in ("obj", "solver"):
                    if op.get(key) and op[key] != "default":
                        used.add(op[key])
        case["objects"] = {k: v for k, v in case["objects"].items() if k in used}
        n = len(case["schedule"])
        case["env"] = [e for e in case.get("env", []) if e["before_step"] < n]
        case["faults"] = [f for f in case.get("faults", []) if f["step"] < n]
        return case
