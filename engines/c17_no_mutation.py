"""C17 engine: a pool of shared operands driven through a registry of call forms that are
documented to return new objects; after EVERY step every pool member (arguments and
bystanders), every caller-owned container and the global RNG states are compared with the
deep snapshot taken before the step.  Results join the pool and are used later, so aliasing
between a result and its source shows up as a mutation some steps on.
"""

from __future__ import annotations

import copy
import datetime
import hashlib
import random
import warnings

import cv2
import numpy as np

import darsia
from dsim.kernel import Engine, HarnessError, Outcome, substream


# ----------------------------------------------------------------------------- deep snapshots
def _tok(x):
    if x is None or isinstance(x, (bool, int, str)):
        return repr(x)
    if isinstance(x, float):
        return x.hex()
    if isinstance(x, (np.integer, np.floating, np.bool_)):
        return f"{type(x).__name__}:{np.asarray(x).tobytes().hex()}"
    if isinstance(x, (datetime.datetime, datetime.date, datetime.timedelta)):
        return repr(x)
    if isinstance(x, np.dtype) or isinstance(x, type):
        return str(x)
    return None


def snap(o, path="", out=None, depth=0, seen=None):
    """Flat map path -> token describing every reachable piece of state of ``o``."""
    out = {} if out is None else out
    seen = set() if seen is None else seen
    t = _tok(o)
    if t is not None:
        out[path] = t
        return out
    if isinstance(o, np.ndarray):
        a = np.ascontiguousarray(o)
        if a.dtype == object:
            out[path] = "objarr:" + repr(a.shape)
            for i, v in enumerate(a.ravel().tolist()):
                snap(v, f"{path}[{i}]", out, depth + 1, seen)
        else:
            out[path] = f"nd:{type(o).__name__}:{a.dtype}:{a.shape}:{hashlib.sha1(a.tobytes()).hexdigest()}"
        return out
    if depth > 7 or id(o) in seen:
        out[path] = "…"
        return out
    if isinstance(o, (list, tuple)):
        out[path] = f"{type(o).__name__}:{len(o)}"
        for i, v in enumerate(o):
            snap(v, f"{path}[{i}]", out, depth + 1, seen)
        return out
    if isinstance(o, dict):
        out[path] = f"dict:{sorted(map(str, o))}"
        for k in sorted(o, key=str):
            snap(o[k], f"{path}[{k!r}]", out, depth + 1, seen)
        return out
    if isinstance(o, slice):
        out[path] = f"slice:{o.start}:{o.stop}:{o.step}"
        return out
    if callable(o) and not hasattr(o, "__dict__"):
        out[path] = "callable"
        return out
    if hasattr(o, "__dict__"):
        seen = seen | {id(o)}
        out[path] = "obj:" + type(o).__name__
        for k in sorted(vars(o)):
            if k.startswith("_") and isinstance(o, darsia.Image):
                continue  # private, lazily filled caches of an image are not pixel data, metadata or a caller's container
            snap(vars(o)[k], f"{path}.{k}", out, depth + 1, seen)
        return out
    out[path] = "r:" + type(o).__name__
    return out


def rng_token():
    s = np.random.get_state()
    return hashlib.sha1(repr((s[0], s[2], s[3], s[4])).encode() + np.asarray(s[1]).tobytes()).hexdigest(), \
        hashlib.sha1(repr(random.getstate()).encode()).hexdigest()


_CV_EXPECT = {}


def cv_rng_arm(k: int) -> None:
    """OpenCV's global generator cannot be read; put it into a known state before a call ..."""
    cv2.setRNGSeed(int(k) % 2**31)


def cv_rng_untouched(k: int) -> bool:
    """... and compare the next draw with the draw that state produces: a call that consumed or reseeded it differs."""
    k = int(k) % 2**31
    got = np.zeros(4, np.float64)
    cv2.randu(got, 0.0, 1.0)
    if k not in _CV_EXPECT:
        cv2.setRNGSeed(k)
        exp = np.zeros(4, np.float64)
        cv2.randu(exp, 0.0, 1.0)
        _CV_EXPECT[k] = exp.tobytes()
    return got.tobytes() == _CV_EXPECT[k]


def first_diff(a: dict, b: dict):
    for k in sorted(set(a) | set(b)):
        if a.get(k) != b.get(k):
            return k
    return None


# ----------------------------------------------------------------------------- pool sources
DT0 = datetime.datetime(2023, 5, 17, 10, 0, 0)


def make_source(spec):
    k = spec["kind"]
    if k == "image":
        return make_image(spec)
    if k == "array":
        g = np.random.default_rng(80_000 + spec["id"])
        a = np.round(g.uniform(0.05, 1.0, size=tuple(spec["shape"])) * 128) / 128
        return a.astype(spec.get("dtype", "float64"))
    if k == "labels":
        g = np.random.default_rng(81_000 + spec["id"])
        lab = g.integers(0, spec["n"], size=tuple(spec["shape"])).astype(np.uint8)
        lab.ravel()[: spec["n"]] = np.arange(spec["n"])  # every label present
        return lab
    if k == "mask":
        g = np.random.default_rng(82_000 + spec["id"])
        return g.uniform(size=tuple(spec["shape"])) < 0.7
    if k == "voxels":
        return darsia.make_voxel(spec["vals"])
    if k == "coords":
        return darsia.make_coordinate(spec["vals"])
    if k == "slices":
        return tuple(slice(lo, hi) for lo, hi in spec["vals"])
    if k == "object":
        c = spec["cls"]
        if c == "Resize":
            return darsia.Resize(shape=tuple(spec["shape"]), interpolation=spec.get("interpolation"))
        if c == "AxisReduction":
            return darsia.AxisReduction(axis=spec["axis"], dim=3, mode=spec.get("mode", "average"))
        if c == "Geometry":
            return darsia.Geometry(space_dim=2, num_voxels=tuple(spec["shape"]), dimensions=[1.0, 2.0])
        if c == "EMD":
            pre = spec.get("preprocess")
            if pre == "identity-model":
                return darsia.EMD(preprocess=darsia.ScalingModel(scaling=1.0))  # returns its input unchanged
            if pre == "conditional":
                big = darsia.Resize(shape=(4, 4), interpolation="inter_area")
                return darsia.EMD(preprocess=lambda im: big(im) if im.num_voxels[0] > 16 else im)
            if pre == "resize":
                return darsia.EMD(preprocess=darsia.Resize(shape=tuple(spec["shape"]), interpolation="inter_area"))
            return darsia.EMD()
        if c == "HeterogeneousLinearModel":
            g = np.random.default_rng(81_500 + spec["id"])
            lab = g.integers(0, 3, size=tuple(spec["shape"])).astype(np.uint8)
            lab.ravel()[:3] = [0, 1, 2]  # all three labels present
            return darsia.HeterogeneousLinearModel(lab, scaling=[1.5, 0.5, 2.0], offset=[0.0, 0.1, 0.2])
        if c == "ScalingModel":
            return darsia.ScalingModel(scaling=1.0)
        if c == "ClipModel":
            return darsia.ClipModel(**{"min value": 0.1, "max value": 0.9})
        raise HarnessError(c)
    if k == "dates":
        tz = datetime.timezone(datetime.timedelta(hours=spec["tz"])) if spec.get("tz") is not None else None
        return [DT0.replace(tzinfo=tz) + datetime.timedelta(minutes=7 * i) for i in range(spec["n"])]
    if k == "list":
        return list(spec["vals"])
    if k == "tuple":
        return tuple(spec["vals"])
    if k == "options":
        v = copy.deepcopy(spec["vals"])
        if spec.get("amg_levels"):
            # the pyamg interface for per-level settings: lists (one entry per level) of names or (name, options) tuples
            v["amg_options"].update({"strength": [("symmetric", {"theta": 0.0}), ("symmetric", {"theta": 0.1})],
                                     "improve_candidates": [("block_gauss_seidel", {"sweep": "symmetric", "iterations": 2}), None],
                                     "max_levels": 6})
        return v
    raise HarnessError(f"unknown source kind {k}")


def make_image(spec):
    g = np.random.default_rng(83_000 + spec["id"])
    shape = tuple(spec["shape"])
    T, C = spec.get("series", 0), spec.get("chan", 0)
    full = shape + ((T,) if T else ()) + ((C,) if C else ())
    a = np.round(g.uniform(0.05, 1.0, size=full) * 128) / 128
    if spec.get("roll"):
        a = np.roll(a, spec["roll"], axis=0)  # same multiset of values: equal total mass
    if spec.get("zeros"):
        a = np.ones_like(a)
        a.ravel()[[1, a.size - 2]] = 0.0  # a weight image with isolated vanishing entries
    if spec.get("nearly"):
        a = a * (1.0 + 2.0 ** -22)  # mass defect of 2.4e-7 relative: inside the library's tolerance, far beyond round-off
    dt = spec.get("dtype", "float64")
    if dt == "uint8":
        a = (a * 255).astype(np.uint8)
    elif dt == "uint16":
        a = (a * 65535).astype(np.uint16)
    elif dt == "bool":
        a = a > 0.5
    elif dt == "int64":
        a = np.round(a * 1000).astype(np.int64)
    else:
        a = a.astype(dt)
    d = len(shape)
    kw = {"dimensions": [float(x) for x in spec.get("dims", [float(s) for s in shape])], "series": bool(T)}
    if spec.get("origin") is not None:
        kw["origin"] = list(spec["origin"])
    if spec.get("name"):
        kw["name"] = spec["name"]
    tm = spec.get("time", "none")
    tz = datetime.timezone(datetime.timedelta(hours=2)) if spec.get("tz") else None
    if T:
        if tm == "date":
            kw["date"] = [DT0.replace(tzinfo=tz) + datetime.timedelta(seconds=60 * i) for i in range(T)]  # before the singles (>= 1000 s)
        else:
            kw["time"] = [float(10 * i) for i in range(T)]
    else:
        if tm == "date":
            kw["date"] = DT0.replace(tzinfo=tz) + datetime.timedelta(seconds=spec.get("date_offset", 0))
        elif tm == "time":
            kw["time"] = float(spec.get("date_offset", 0))
    cls = spec.get("cls", "Image")
    with warnings.catch_warnings():
        warnings.simplefilter("ignore")
        if cls == "OpticalImage":
            return darsia.OpticalImage(a, color_space=spec.get("color_space", "RGB"), **kw)
        if cls == "ScalarImage":
            return darsia.ScalarImage(a, space_dim=d, **kw)
        return darsia.Image(a, space_dim=d, scalar=not C, **kw)


# ----------------------------------------------------------------------------- registry
# Every entry: name -> (function(pool, op) -> result, names of operand keys in op that refer to pool members)
def _arith(sym):
    def f(pool, op):
        a = pool[op["a"]]
        b = pool[op["b"]] if isinstance(op["b"], str) else op["b"]
        if sym == "+":
            return a + b
        if sym == "-":
            return a - b
        if sym == "*":
            return a * b
        if sym == "r*":
            return b * a
        if sym == "<":
            return a < b
        if sym == ">":
            return a > b
        if sym == "==":
            return a == b
        if sym == "<=":
            return a <= b
        if sym == ">=":
            return a >= b
        raise HarnessError(sym)
    return f


NP_DT = {"float32": np.float32, "float64": np.float64, "uint8": np.uint8, "uint16": np.uint16, "float": float,
         "bool": bool, "int": int}


def _subregion(pool, op):
    a = pool[op["a"]]
    if op.get("roi_from"):
        return a.subregion(pool[op["roi_from"]])  # caller-owned ROI container (slices / VoxelArray / CoordinateArray)
    roi = op["roi"]
    if op["form"] == "slices":
        return a.subregion(tuple(slice(lo, hi) for lo, hi in roi))
    if op["form"] == "voxels":
        return a.subregion(darsia.make_voxel([[lo for lo, _ in roi], [hi for _, hi in roi]]))
    cs = a.coordinatesystem
    c0 = cs.coordinate([lo for lo, _ in roi])
    c1 = cs.coordinate([hi for _, hi in roi])
    return a.subregion(darsia.make_coordinate([list(c0), list(c1)]))


def _resize(pool, op):
    a = pool[op["a"]]
    kw = {}
    if op.get("shape_from"):
        kw["shape"] = pool[op["shape_from"]]
    if op.get("ref"):
        kw["ref_image"] = pool[op["ref"]]
    if op.get("fx"):
        kw.update(fx=op["fx"], fy=op["fy"])
    if op.get("interpolation"):
        kw["interpolation"] = op["interpolation"]
    if op["via"] == "function":
        return darsia.resize(a, **kw)
    extra = {"resize conservative": True} if op.get("conservative") else {}
    return darsia.Resize(**kw, **extra)(a)


def _model(pool, op):
    m = op["model"]
    x = pool[op["a"]]
    if m == "clip":
        mod = darsia.ClipModel(**{"min value": 0.2, "max value": 0.8})
    elif m == "scaling":
        mod = darsia.ScalingModel(scaling=op.get("s", 2.0))
    elif m == "linear":
        mod = darsia.LinearModel(scaling=op.get("s", 2.0), offset=0.5)
    elif m == "hetero":
        mod = darsia.HeterogeneousLinearModel(pool[op["labels"]], scaling=[1.5, 0.5, 2.0][: op["n"]],
                                              offset=[0.0, 0.1, 0.2][: op["n"]])
    elif m == "combined":
        mod = darsia.CombinedModel([darsia.LinearModel(scaling=2.0, offset=0.1),
                                    darsia.ClipModel(**{"min value": 0.0, "max value": 1.0})])
    elif m == "threshold":
        mod = darsia.StaticThresholdModel(0.3, 0.9)
        return mod(x, pool[op["mask"]]) if op.get("mask") else mod(x)
    else:
        raise HarnessError(m)
    return mod(x)


def _geometry(pool, op):
    a = pool[op["a"]]
    nv = pool[op["nv"]] if op.get("nv") else tuple(a.num_voxels)
    dims = pool[op["dims"]] if op.get("dims") else list(a.dimensions)
    if op.get("weight"):
        g = darsia.WeightedGeometry(weight=pool[op["weight"]], space_dim=a.space_dim, num_voxels=nv, dimensions=dims)
    else:
        g = darsia.Geometry(space_dim=a.space_dim, num_voxels=nv, dimensions=dims)
    if op["what"] == "integrate":
        return g.integrate(a)
    return g.normalize(a, pool[op["ref"]])


class _PyamgProxy:
    """Replaces the name 'pyamg' inside darsia.measure.wasserstein: the n-th multigrid set-up completes (and has
    drawn from numpy's global RNG) and then fails."""

    def __init__(self, real, occurrence):
        self._real, self._at, self._n, self.fired = real, occurrence, 0, False

    def __getattr__(self, name):
        return getattr(self._real, name)

    def smoothed_aggregation_solver(self, *a, **k):
        ml = self._real.smoothed_aggregation_solver(*a, **k)
        i = self._n
        self._n += 1
        if i == self._at:
            self.fired = True
            raise RuntimeError("injected: multigrid set-up failed after drawing random vectors")
        return ml


def _w1(pool, op):
    if op.get("fault"):
        import darsia.measure.wasserstein as wm
        if not hasattr(wm, "pyamg"):
            raise HarnessError("seam missing: darsia.measure.wasserstein.pyamg")
        real = wm.pyamg
        proxy = _PyamgProxy(real, op["fault"]["occurrence"])
        wm.pyamg = proxy
        try:
            return _w1({**pool}, {k: v for k, v in op.items() if k != "fault"})
        finally:
            wm.pyamg = real
            FAULTS_FIRED.append(proxy.fired)
    a, b = pool[op["a"]], pool[op["b"]]
    with warnings.catch_warnings():
        warnings.simplefilter("ignore")
        if op["method"] == "emd-class":
            return darsia.EMD()(a, b)
        kw = {}
        if op["method"] != "cv2.emd":
            kw["options"] = pool[op["options"]]
        elif op.get("preprocess"):
            kw["preprocess"] = pool[op["preprocess"]]
        if op.get("weight"):
            kw["weight"] = pool[op["weight"]]
        try:
            return darsia.wasserstein_distance(a, b, op["method"], **kw)
        finally:
            import tracemalloc
            if tracemalloc.is_tracing():
                tracemalloc.stop()


def _ctor(pool, op):
    arr = pool[op["arr"]]
    sdim = arr.ndim
    kw = {}
    if op.get("dims"):
        kw["dimensions"] = pool[op["dims"]]
    for k in ("height", "width", "depth"):
        if op.get(k) is not None:
            kw[k] = op[k]
    if op.get("origin"):
        kw["origin"] = pool[op["origin"]]
    if op.get("meta"):
        kw.update(pool[op["meta"]])
    if op.get("dates"):
        kw.update(date=pool[op["dates"]], series=True)
        arr = np.stack([arr] * len(pool[op["dates"]]), axis=-1)
    with warnings.catch_warnings():
        warnings.simplefilter("ignore")
        if op["cls"] == "Image":
            return darsia.Image(arr, space_dim=sdim if not op.get("space_dim") else op["space_dim"], scalar=True, **kw)
        if op["cls"] == "ScalarImage":
            return darsia.ScalarImage(arr, space_dim=sdim, **kw)
        if op["cls"] == "OpticalImage":
            rgb = np.stack([arr, arr, arr], axis=-1)
            return darsia.OpticalImage(rgb, color_space="RGB", **kw)
        if op["cls"] == "generate_grid":
            return darsia.generate_grid(pool[op["img"]])
        if op["cls"] == "Grid":
            return darsia.Grid(tuple(arr.shape), pool[op["voxel_size"]])
        if op["cls"] == "Geometry":
            return darsia.Geometry(space_dim=arr.ndim, num_voxels=pool[op["nv"]], dimensions=pool[op["dims"]])
    raise HarnessError(op["cls"])


def _objcall(pool, op):
    o = pool[op["obj"]]
    if op["method"] == "integrate":
        return o.integrate(pool[op["a"]])
    if op.get("b"):
        return o(pool[op["a"]], pool[op["b"]])
    return o(pool[op["a"]])


REGISTRY = {
    "objcall": (_objcall, ("a", "b", "obj")),
    "add": (_arith("+"), ("a", "b")), "sub": (_arith("-"), ("a", "b")),
    "mul": (_arith("*"), ("a",)), "rmul": (_arith("r*"), ("a",)),
    "lt": (_arith("<"), ("a", "b")), "gt": (_arith(">"), ("a", "b")), "eq": (_arith("=="), ("a", "b")),
    "le": (_arith("<="), ("a", "b")), "ge": (_arith(">="), ("a", "b")),
    "copy": (lambda p, o: p[o["a"]].copy(), ("a",)),
    "astype": (lambda p, o: p[o["a"]].astype(NP_DT[o["t"]] if o["t"] in NP_DT else getattr(darsia, o["t"])), ("a",)),
    "img_as": (lambda p, o: p[o["a"]].img_as(NP_DT[o["t"]]), ("a",)),
    "to_trichromatic": (lambda p, o: p[o["a"]].to_trichromatic(o["cs"], return_image=True), ("a",)),
    "to_monochromatic": (lambda p, o: p[o["a"]].to_monochromatic(o["key"]), ("a",)),
    "add_grid": (lambda p, o: p[o["a"]].add_grid(dx=o["dx"], dy=o["dy"], thickness=1), ("a",)),
    "subregion": (_subregion, ("a", "roi_from")),
    "time_slice": (lambda p, o: p[o["a"]].time_slice(o["i"]), ("a",)),
    "time_interval": (lambda p, o: p[o["a"]].time_interval(slice(o["lo"], o["hi"])), ("a",)),
    "slice": (lambda p, o: p[o["a"]].slice(o["cut"], o["axis"]), ("a",)),
    "reset_origin": (lambda p, o: p[o["a"]].reset_origin(return_image=True), ("a",)),
    "weight": (lambda p, o: darsia.weight(p[o["a"]], p[o["w"]] if isinstance(o["w"], str) else o["w"]), ("a", "w")),
    "superpose": (lambda p, o: darsia.superpose(p[o["lst"]]), ("lst",)),
    "stack": (lambda p, o: darsia.stack(p[o["lst"]]), ("lst",)),
    "resize": (_resize, ("a", "ref", "shape_from")),
    "equalize_voxel_size": (lambda p, o: darsia.equalize_voxel_size(p[o["a"]], **({"voxel_size": o["vs"]} if o.get("vs") else {})), ("a",)),
    "uniform_refinement": (lambda p, o: darsia.uniform_refinement(p[o["a"]], o["levels"]), ("a",)),
    "reduce_axis": (lambda p, o: darsia.reduce_axis(p[o["a"]], o["axis"], o["mode"], **({"slice_idx": 0} if o["mode"] == "slice" else {})), ("a",)),
    "AxisReduction": (lambda p, o: darsia.AxisReduction(o["axis"], dim=p[o["a"]].space_dim, mode=o["mode"],
                                                        **({"slice_idx": 0} if o["mode"] == "slice" else {}))(p[o["a"]]), ("a",)),
    "extrude_along_axis": (lambda p, o: darsia.extrude_along_axis(p[o["a"]], o["h"], o["n"]), ("a",)),
    "zeros_like": (lambda p, o: darsia.zeros_like(p[o["a"]], mode=o["mode"], dtype=NP_DT.get(o.get("t"))), ("a",)),
    "ones_like": (lambda p, o: darsia.ones_like(p[o["a"]], mode=o["mode"], dtype=NP_DT.get(o.get("t"))), ("a",)),
    "model": (_model, ("a", "labels", "mask")),
    "geometry": (_geometry, ("a", "ref", "nv", "dims", "weight")),
    "distance": (_w1, ("a", "b", "options", "weight", "preprocess")),
    "bounding_box": (lambda p, o: darsia.bounding_box(darsia.make_voxel(p[o["pts"]]), padding=o.get("pad", 0), max_size=p[o["max"]] if o.get("max") else None), ("pts", "max")),
    "bounding_box_inverse": (lambda p, o: darsia.bounding_box_inverse(p[o["box"]]), ("box",)),
    "random_patches": (lambda p, o: darsia.random_patches(p[o["mask"]], o["w"], o["n"]), ("mask",)),
    "ctor": (_ctor, ("arr", "dims", "origin", "meta", "nv", "voxel_size", "img", "dates")),
}

DEP_SITES = [("darsia.image.arithmetics", "cv2", "resize"), ("darsia.image.arithmetics", "np", "multiply"),
             ("darsia.image.image", "np", "stack"), ("darsia.image.image", "copy", "deepcopy"),
             ("darsia.image.image", "cv2", "cvtColor"), ("darsia.restoration.resize", "cv2", "resize"),
             ("darsia.restoration.resize", "cv2", "merge"), ("darsia.measure.emd", "cv2", "EMD"),
             ("darsia.signals.reduction.dimensionreduction", "np", "sum"), ("darsia.measure.integration", "np", "multiply")]


class _DepProxy:
    """Replaces a module-level name (cv2 / np / copy) inside ONE darsia module: everything passes through, the n-th call
    of one function raises."""

    def __init__(self, real, func, occurrence, exc):
        self._real, self._func, self._at, self._exc, self._n, self.fired = real, func, occurrence, exc, 0, False

    def __getattr__(self, name):
        v = getattr(self._real, name)
        if name != self._func:
            return v

        def wrapped(*a, **k):
            i = self._n
            self._n += 1
            if i == self._at:
                self.fired = True
                if self._exc == "KeyboardInterrupt":
                    raise KeyboardInterrupt("injected")
                raise {"MemoryError": MemoryError, "RuntimeError": RuntimeError}[self._exc]("injected dependency failure")
            return v(*a, **k)
        return wrapped


def install_depfault(f):
    import importlib
    mod = importlib.import_module(f["module"])
    if not hasattr(mod, f["attr"]):
        raise HarnessError(f"seam missing: {f['module']}.{f['attr']}")
    real = getattr(mod, f["attr"])
    proxy = _DepProxy(real, f["func"], f["occurrence"], f["exc"])
    setattr(mod, f["attr"], proxy)
    return mod, f["attr"], real, proxy


FAULTS_FIRED: list = []
RETURNS_SELF_RESET = {"reset_origin"}  # documented to reset the receiver's own origin: only bystanders are watched


def numpy_expectation(pool, op):
    """C17.E reference: the same arithmetic on the raw arrays."""
    a = pool[op["a"]].img
    b = pool[op["b"]].img if isinstance(op["b"], str) else op["b"]
    k = op["op"]
    return {"add": lambda: a + b, "sub": lambda: a - b, "mul": lambda: a * b, "rmul": lambda: b * a,
            "lt": lambda: a < b, "gt": lambda: a > b, "eq": lambda: a == b, "le": lambda: a <= b,
            "ge": lambda: a >= b}[k]()


class C17Engine(Engine):
    prop = "C17"
    name = "c17_no_mutation"
    level = "exploration"
    quick_runs = 6000
    quick_budget_s = 150.0
    thorough_budget_s = 1500.0
    chunk = 50
    run_timeout_s = 180.0
    determinism_sample = 16
    rule = ("One run = a pool of 6-10 shared operands (images of all kinds, arrays, caller-owned lists/tuples/dicts) and a "
            "program of 2-8 calls drawn from the registry of call forms documented to return a new object; results join "
            "the pool. After every step every pool member and both global RNG states are compared with the snapshot taken "
            "before the step. Non-trivial = the step uses an operand that was already used by an earlier step or was itself "
            "derived from another pool member; distinct = distinct (sequence of call forms, operand-sharing pattern).")
    components_real = ["darsia.Image / ScalarImage / OpticalImage and all registered call forms (see registry in engines/c17_no_mutation.py)",
                       "numpy, OpenCV, skimage, scipy, pyamg"]
    components_stub = ["names cv2 / np / copy inside single darsia modules -> pass-through proxies whose n-th call of one function raises (dependency fault, 8 % of steps)",
                       "name 'pyamg' inside darsia.measure.wasserstein -> proxy whose k-th multigrid set-up completes (drawing from numpy's RNG) and then raises (only in distance calls that carry a fault plan)"]
    assumptions = ["a call that raises is not a violation (the statement is about operations that return); whether a raising call left its arguments intact is counted as a probe only",
                   "reset_origin(return_image=True) is documented to reset the receiver's own origin: only bystanders are watched for it",
                   "C17.E covers scalar x image combinations for which numpy keeps the raw array's dtype (int and float scalars on float images, non-negative int scalars on unsigned images); float x integer-image and negative-int x unsigned-image change dtype in numpy itself and are outside"]

    def check_seams(self):
        for n in ("Image", "ScalarImage", "OpticalImage", "weight", "superpose", "stack", "resize", "Resize",
                  "equalize_voxel_size", "uniform_refinement", "reduce_axis", "AxisReduction", "extrude_along_axis",
                  "zeros_like", "ones_like", "Geometry", "EMD", "wasserstein_distance", "bounding_box", "random_patches"):
            if not hasattr(darsia, n):
                raise HarnessError(f"seam missing: darsia.{n}")

    # ------------------------------------------------------------------ generation
    def _img_spec(self, r, force=None):
        force = force or {}
        cls = force.get("cls") or r.choice(["Image", "Image", "ScalarImage", "OpticalImage"])
        if cls == "OpticalImage":
            spec = {"kind": "image", "cls": cls, "shape": force.get("shape") or [r.randint(3, 6), r.randint(3, 6)],
                    "chan": 3, "dtype": r.choice(["uint8", "float32", "float64", "uint8"]),
                    "color_space": r.choice(["RGB", "RGB", "BGR", "HSV"])}
        else:
            d = force.get("dim") or r.choice([1, 2, 2, 2, 3])
            spec = {"kind": "image", "cls": cls, "shape": force.get("shape") or [r.randint(2, 5) for _ in range(d)],
                    "dtype": force.get("dtype") or r.choice(["float64", "float64", "float32", "uint8", "uint16", "bool",
                                                             "float64", "float32", "uint8", "int64", "float16"])}
            if cls == "Image" and r.random() < 0.25 and not force.get("scalar"):
                spec["chan"] = r.choice([1, 2, 3])
        if r.random() < 0.3 and not force.get("noseries"):
            spec["series"] = r.randint(1, 3)
        spec["time"] = r.choice(["none", "time", "date"])
        spec["date_offset"] = r.choice([0, 100, 200])
        spec["id"] = r.randint(0, 9999)
        spec["dims"] = [r.choice([0.5, 1.0, 2.0, 3.0]) * s for s in spec["shape"]]
        if r.random() < 0.3:
            spec["origin"] = [r.choice([0.0, 1.0, -2.0]) for _ in spec["shape"]]
        if r.random() < 0.3:
            spec["name"] = "img%d" % r.randint(0, 9)
        return spec

    @staticmethod
    def _desc(spec):
        return {"t": "image", "cls": spec.get("cls", "Image"), "dim": len(spec["shape"]), "shape": list(spec["shape"]),
                "chan": spec.get("chan", 0), "series": spec.get("series", 0), "dtype": spec.get("dtype", "float64"),
                "time": spec.get("time", "none"), "dims": spec.get("dims"), "origin": spec.get("origin")}

    def generate(self, seed: int, tier: str) -> dict:
        r = substream(seed, "workload")
        cfg = substream(seed, "config")
        sources, desc = {}, {}
        # a family of mutually compatible 2-D scalar float images (arithmetic, weighting, stacking, distances)
        base_shape = [cfg.randint(3, 6), cfg.randint(3, 6)]
        fam_dtype = cfg.choice(["float64", "float64", "float32", "uint8"])
        fam_cls = cfg.choice(["Image", "ScalarImage"])
        for i in range(cfg.randint(2, 3)):
            sp = self._img_spec(r, {"cls": fam_cls, "shape": base_shape, "dtype": fam_dtype, "scalar": True, "noseries": True, "dim": 2})
            sp["dims"] = [float(base_shape[0]), 2.0 * base_shape[1]]
            sp["origin"] = None
            sp.pop("origin")
            sp["time"] = "date" if i == 0 else sp["time"]
            sp["date_offset"] = 1000 + 100 * i
            sources[f"f{i}"] = sp
        # two equal-mass distributions on the family grid (distance computations need them)
        mid = r.randint(0, 9999)
        for i in range(2):
            sources[f"m{i}"] = {"kind": "image", "cls": fam_cls, "shape": base_shape, "dtype": "float64", "id": mid,
                                "roll": i, "dims": [float(base_shape[0]), 2.0 * base_shape[1]], "time": "none"}
        sources["m2"] = {**sources["m1"], "nearly": True}  # matches m0's mass within the library's tolerance only
        for i in range(cfg.randint(2, 4)):
            sources[f"i{i}"] = self._img_spec(r)
        sources["wimg"] = self._img_spec(r, {"cls": "Image", "shape": [base_shape[0] * cfg.choice([1, 1, 2]), base_shape[1] * cfg.choice([1, 2])],
                                             "dtype": "float64", "scalar": True, "noseries": True, "dim": 2})
        sources["wimg"]["dims"] = [float(base_shape[0]), 2.0 * base_shape[1]]
        sources["wimg"].pop("origin", None)
        sources["arr2"] = {"kind": "array", "shape": base_shape, "id": r.randint(0, 999), "dtype": cfg.choice(["float64", "float32"])}
        sources["labels"] = {"kind": "labels", "shape": base_shape, "n": 3, "id": r.randint(0, 999)}
        sources["mask"] = {"kind": "mask", "shape": [8, 9], "id": r.randint(0, 999)}
        sources["dims2"] = {"kind": "list", "vals": [2.0, 3.0]}
        sources["dims3"] = {"kind": "list", "vals": [2.0, 3.0, 4.0]}
        sources["nv2"] = {"kind": "tuple", "vals": base_shape}
        sources["shape_t"] = {"kind": "tuple", "vals": [cfg.randint(2, 7), cfg.randint(2, 7)]}
        sources["roi_s"] = {"kind": "slices", "vals": [[cfg.randint(0, 1), cfg.randint(2, 3)], [0, cfg.randint(2, 3)]]}
        sources["roi_v"] = {"kind": "voxels", "vals": [[cfg.choice([-3, 0, 1]), cfg.choice([-1, 0, 1])],
                                                       [cfg.choice([2, 3, 25]), cfg.choice([3, 30])]]}
        sources["roi_c"] = {"kind": "coords", "vals": [[cfg.choice([-1.0, 0.5]), cfg.choice([0.5, 1.0])],
                                                       [cfg.choice([1.5, 40.0]), cfg.choice([2.5, 30.0])]]}
        # a series on the family grid whose dates precede those of the single family images (valid first element of a stack)
        sources["fs"] = {"kind": "image", "cls": fam_cls, "shape": base_shape, "dtype": fam_dtype, "series": cfg.randint(1, 3),
                         "time": cfg.choice(["date", "date", "time", "none"]), "id": r.randint(0, 9999),
                         "dims": [float(base_shape[0]), 2.0 * base_shape[1]], "early": True}
        # long-lived helper objects shared by the program (their own caches may change; their arguments must not)
        sources["o_resize"] = {"kind": "object", "cls": "Resize", "shape": [cfg.randint(2, 7), cfg.randint(2, 7)],
                               "interpolation": cfg.choice([None, "inter_area", "inter_nearest"])}
        sources["o_reduce"] = {"kind": "object", "cls": "AxisReduction", "axis": cfg.choice(["x", "y", "z", 0, 2]),
                               "mode": cfg.choice(["average", "sum"])}
        sources["o_geom"] = {"kind": "object", "cls": "Geometry", "shape": base_shape}
        sources["o_emd"] = {"kind": "object", "cls": "EMD", "shape": base_shape,
                            "preprocess": cfg.choice([None, "identity-model", "conditional", "resize"])}
        sources["o_het"] = {"kind": "object", "cls": "HeterogeneousLinearModel", "shape": base_shape, "id": r.randint(0, 99)}
        sources["o_clip"] = {"kind": "object", "cls": "ClipModel"}
        sources["o_clipid"] = {"kind": "object", "cls": "ScalingModel"}  # a preprocess routine that hands its input back
        sources["dates"] = {"kind": "dates", "n": cfg.randint(2, 3), "tz": cfg.choice([None, None, 1, -5])}
        sources["wzero"] = {"kind": "image", "cls": "Image", "shape": base_shape, "dtype": "float64", "id": r.randint(0, 9999),
                            "dims": [float(base_shape[0]), 2.0 * base_shape[1]], "time": "none", "zeros": 2}
        sources["pts"] = {"kind": "list", "vals": [[1, 2], [3, 1], [2, 4]]}
        sources["max_size"] = {"kind": "list", "vals": [6, 6]}
        sources["box"] = {"kind": "tuple", "vals": []}  # replaced at build time by a tuple of slices
        sources["meta"] = {"kind": "options", "vals": {"dimensions": [1.0, 2.0], "name": "m"}}
        ls = cfg.choice(["direct", "direct", "amg", "cg"])
        sources["w1opts"] = {"kind": "options", "vals": {"num_iter": 2, "linear_solver": ls, "formulation": "pressure",
                                                         "amg_options": {"max_coarse": 2},
                                                         "aa_depth": cfg.choice([0, 1])}}
        if ls != "direct" and cfg.random() < 0.5:
            sources["w1opts"]["amg_levels"] = True
        if ls != "direct" and cfg.random() < 0.35:
            # relaxation-type coarse solvers are built lazily by pyamg, in the solve phase (they draw random numbers there)
            sources["w1opts"]["vals"]["amg_options"]["coarse_solver"] = cfg.choice(["jacobi", "richardson", "block_jacobi"])
        if cfg.random() < 0.25:
            for sp in sources.values():
                if sp["kind"] == "image":
                    sp["tz"] = True  # time-zone aware time stamps (what imread produces from %z metadata)
        for n, sp in sources.items():
            if sp["kind"] == "image":
                desc[n] = self._desc(sp)
        nsteps = cfg.randint(2, 12 if tier == "thorough" else 8)
        program = []
        lists = {}
        for step in range(nsteps):
            op = self._gen_op(r, desc, sources, lists, step, base_shape)
            if op is None:
                continue
            fr = substream(seed, f"faults{step}")
            if fr.random() < 0.08:
                rel = {"weight": [0, 1, 3], "stack": [2, 3], "copy": [3], "mul": [3], "rmul": [3], "img_as": [3], "astype": [3],
                       "to_trichromatic": [3, 4], "to_monochromatic": [3, 4], "resize": [5, 6], "equalize_voxel_size": [5, 6],
                       "objcall": [3, 5, 7, 8, 9], "distance": [3, 7], "reduce_axis": [8], "AxisReduction": [8], "slice": [8],
                       "geometry": [9, 3, 1], "model": [3], "time_slice": [3], "superpose": [3]}.get(op["op"])
                m, a, f = DEP_SITES[fr.choice(rel)] if rel else fr.choice(DEP_SITES)
                op["depfault"] = {"module": m, "attr": a, "func": f, "occurrence": fr.randint(0, 2),
                                  "exc": fr.choice(["MemoryError", "RuntimeError", "KeyboardInterrupt"])}
            program.append(op)
        return {"engine": self.name, "seed": seed, "sources": sources, "lists": lists, "program": program}

    def _pick(self, r, desc, pred):
        c = sorted(n for n, d in desc.items() if pred(d))
        return r.choice(c) if c else None

    def _gen_op(self, r, desc, sources, lists, step, base_shape):
        out = f"r{step}"
        is2d_scalar = lambda d: d["dim"] == 2 and not d["chan"] and not d["series"] and d["shape"] is not None  # noqa: E731
        fam = lambda d: is2d_scalar(d) and d["shape"] == base_shape and d.get("fam", True) and d["cls"] != "OpticalImage"  # noqa: E731
        kind = r.choice(["arith", "arith", "cmp", "copy", "astype", "img_as", "optical", "subregion", "time", "slice",
                         "reset_origin", "weight", "weight", "superpose", "stack", "stack", "resize", "resize", "refine",
                         "reduce", "extrude", "like", "model", "geometry", "distance", "box", "patches", "ctor", "ctor", "objcall", "objcall"])
        if kind == "arith":
            a = self._pick(r, desc, lambda d: d["t"] == "image")
            if a is None:
                return None
            which = r.choice(["add", "sub", "mul", "rmul", "mul", "rmul"])
            if which in ("add", "sub"):
                b = self._pick(r, desc, lambda d: d["shape"] == desc[a]["shape"] and d["chan"] == desc[a]["chan"]
                               and d["series"] == desc[a]["series"] and d["dim"] == desc[a]["dim"])
                op = {"op": which, "a": a, "b": b, "out": out}
            else:
                op = {"op": which, "a": a, "b": r.choice([2.5, 0.5, 3, 2, -1, 1.0, 300, 1e40]), "out": out}
            desc[out] = dict(desc[a])
            return op
        if kind == "cmp":
            a = self._pick(r, desc, lambda d: not d["chan"] and not d["series"])
            if a is None:
                return None
            b = r.choice([0.5, 1, self._pick(r, desc, lambda d: d["shape"] == desc[a]["shape"] and not d["chan"] and not d["series"] and d["dim"] == desc[a]["dim"])])
            if b is None:
                b = 0.25
            desc[out] = {**desc[a], "cls": "ScalarImage", "dtype": "bool"}
            return {"op": r.choice(["lt", "gt", "eq", "le", "ge"]), "a": a, "b": b, "out": out}
        if kind == "copy":
            a = self._pick(r, desc, lambda d: True)
            desc[out] = dict(desc[a])
            return {"op": "copy", "a": a, "out": out}
        if kind == "astype":
            a = self._pick(r, desc, lambda d: True)
            t = r.choice(["float32", "float64", "uint8", "float", "ScalarImage" if not desc[a]["chan"] else "Image", "Image"])
            desc[out] = {**desc[a], "dtype": t if t in NP_DT else desc[a]["dtype"], "cls": t if t not in NP_DT else desc[a]["cls"]}
            if desc[out]["dtype"] == "float":
                desc[out]["dtype"] = "float64"
            return {"op": "astype", "a": a, "t": t, "out": out}
        if kind == "img_as":
            a = self._pick(r, desc, lambda d: d["dtype"] != "bool")
            if a is None:
                return None
            t = r.choice(["float", "float32", "float64", "uint8", "uint16", "bool"])
            desc[out] = {**desc[a], "dtype": "float64" if t == "float" else t}
            return {"op": "img_as", "a": a, "t": t, "out": out}
        if kind == "optical":
            a = self._pick(r, desc, lambda d: d["cls"] == "OpticalImage" and d["dtype"] != "bool")
            if a is None:
                return None
            w = r.choice(["tri", "mono", "grid"])
            if w == "tri":
                desc[out] = dict(desc[a])
                return {"op": "to_trichromatic", "a": a, "cs": r.choice(["RGB", "BGR", "HSV", "LAB", "HLS"]), "out": out}
            if w == "mono":
                desc[out] = {**desc[a], "cls": "ScalarImage", "chan": 0}
                return {"op": "to_monochromatic", "a": a, "key": r.choice(["gray", "red", "green", "blue", "value"]), "out": out}
            if desc[a]["series"]:
                return None
            desc[out] = dict(desc[a])
            return {"op": "add_grid", "a": a, "dx": 1.0, "dy": 1.0, "out": out}
        if kind == "subregion":
            a = self._pick(r, desc, lambda d: d["dim"] in (2, 3) and d["shape"] is not None and min(d["shape"]) >= 2)
            if a is None:
                return None
            roi = []
            for s in desc[a]["shape"]:
                lo = r.randint(0, s - 2)
                roi.append([lo, r.randint(lo + 1, s)])
            if desc[a]["dim"] == 2 and r.random() < 0.5:
                desc[out] = {**desc[a], "shape": None, "fam": False}
                return {"op": "subregion", "a": a, "roi_from": r.choice(["roi_s", "roi_v", "roi_v", "roi_c"]), "out": out}
            desc[out] = {**desc[a], "shape": [hi - lo for lo, hi in roi], "fam": False}
            return {"op": "subregion", "a": a, "roi": roi, "form": r.choice(["slices", "voxels", "coords"]), "out": out}
        if kind == "time":
            a = self._pick(r, desc, lambda d: d["series"] >= 1)
            if a is None:
                return None
            T = desc[a]["series"]
            if r.random() < 0.5:
                desc[out] = {**desc[a], "series": 0}
                return {"op": "time_slice", "a": a, "i": r.randint(0, T - 1), "out": out}
            lo = r.randint(0, T - 1)
            hi = r.randint(lo + 1, T)
            desc[out] = {**desc[a], "series": hi - lo}
            return {"op": "time_interval", "a": a, "lo": lo, "hi": hi, "out": out}
        if kind == "slice":
            # integer images make slice raise (in-place division inside reduce_axis): prefer float operands
            a = (self._pick(r, desc, lambda d: d["dim"] == 3 and d["shape"] is not None and d["dtype"] in ("float32", "float64"))
                 if r.random() < 0.85 else None) or self._pick(r, desc, lambda d: d["dim"] == 3 and d["shape"] is not None)
            if a is None:
                return None
            ax = r.randint(0, 2)
            sh = list(desc[a]["shape"])
            cut = r.randint(0, sh[ax] - 1)
            sh.pop(ax)
            if r.random() < 0.06:
                # Cartesian axis name and a physical coordinate instead of a matrix axis and a voxel index (the library
                # raises AssertionError for every such call at present - kept rare, see probe organic-raise)
                desc[out] = {**desc[a], "dim": 2, "shape": None, "fam": False}
                return {"op": "slice", "a": a, "cut": 0.25, "axis": r.choice(["x", "y", "z"]), "out": out}
            desc[out] = {**desc[a], "dim": 2, "shape": sh, "fam": False}
            return {"op": "slice", "a": a, "cut": cut, "axis": ax, "out": out}
        if kind == "reset_origin":
            a = self._pick(r, desc, lambda d: True)
            desc[out] = dict(desc[a])
            return {"op": "reset_origin", "a": a, "out": out}
        if kind == "weight" and r.random() < 0.2:
            a = self._pick(r, desc, lambda d: (d["series"] or d["chan"]) and d["dtype"] in ("float32", "float64") and d["cls"] != "OpticalImage")
            if a is not None:
                tail = ([desc[a]["series"]] if desc[a]["series"] else []) + ([desc[a]["chan"]] if desc[a]["chan"] else [])
                name = f"wvec{step}"
                sources[name] = {"kind": "array", "shape": tail, "id": r.randint(0, 999), "dtype": "float64"}
                desc[out] = dict(desc[a])
                return {"op": "weight", "a": a, "w": name, "out": out}
        if kind == "weight":
            a = self._pick(r, desc, fam)
            if a is None:
                return None
            w = r.choice([2.0, 3, "wimg", "wimg", self._pick(r, desc, fam)])
            desc[out] = dict(desc[a])
            return {"op": "weight", "a": a, "w": w, "out": out}
        if kind in ("superpose", "stack"):
            members = sorted(n for n, d in desc.items() if fam(d) and (kind == "superpose" or d["time"] != "mixed"))
            if len(members) < 2:
                return None
            k = r.randint(2, min(3, len(members)))
            chosen = r.sample(members, k)
            if kind == "superpose" and r.random() < 0.8:
                # superpose asserts one class and one original dtype for all members: mostly hand it such lists
                same = [n for n in members if (desc[n].get("cls"), desc[n].get("dtype")) == (desc[chosen[0]].get("cls"), desc[chosen[0]].get("dtype"))]
                if len(same) >= 2:
                    chosen = [chosen[0]] + r.sample([n for n in same if n != chosen[0]], min(k - 1, len(same) - 1))
            if kind == "stack":
                chosen.sort(key=lambda n: (desc[n].get("order", 0), n))
                if r.random() < 0.4:
                    # a series first (the family series, or the result of an earlier stack), singles after it
                    firsts = ["fs"] + sorted(n for n, d in desc.items() if d.get("stacked"))
                    chosen = [r.choice(firsts)] + chosen[: r.randint(1, 2)]
            lname = f"L{step}"
            lists[lname] = chosen
            desc[out] = {**desc[chosen[0]], "series": k if kind == "stack" else 0, "fam": False,
                         "shape": desc[chosen[0]]["shape"] if kind == "stack" else None, "stacked": kind == "stack"}
            return {"op": kind, "lst": lname, "out": out}
        if kind == "resize":
            a = self._pick(r, desc, lambda d: d["dim"] == 2 and d["dtype"] in ("float32", "float64", "uint8"))
            if a is None:
                return None
            op = {"op": "resize", "a": a, "out": out, "via": r.choice(["function", "object"]),
                  "interpolation": r.choice([None, "inter_area", "inter_linear", "inter_nearest"])}
            how = r.choice(["shape", "f", "ref"])
            if how == "shape":
                op["shape_from"] = "shape_t"
            elif how == "f":
                op.update(fx=r.choice([0.5, 2.0]), fy=r.choice([0.5, 1.0, 2.0]))
            else:
                op["ref"] = self._pick(r, desc, lambda d: d["dim"] == 2 and d["shape"] is not None)
            if op["via"] == "object" and desc[a]["dtype"] != "uint8":
                op["conservative"] = r.random() < 0.5
            desc[out] = {**desc[a], "shape": None, "fam": False}
            return op
        if kind == "refine":
            a = self._pick(r, desc, lambda d: d["dim"] == 2 and d["dtype"] in ("float32", "float64", "uint8"))
            if a is None:
                return None
            desc[out] = {**desc[a], "shape": None, "fam": False}
            if r.random() < 0.5:
                return {"op": "uniform_refinement", "a": a, "levels": r.choice([1, -1, 2]), "out": out}
            return {"op": "equalize_voxel_size", "a": a, "vs": r.choice([None, 1.0]), "out": out}
        if kind == "reduce":
            a = self._pick(r, desc, lambda d: d["dim"] == 3 and d["dtype"] in ("float32", "float64"))
            if a is None:
                return None
            ax = r.choice([0, 1, 2, "x", "y", "z"])
            desc[out] = {**desc[a], "dim": 2, "shape": None, "fam": False}
            return {"op": r.choice(["reduce_axis", "AxisReduction"]), "a": a, "axis": ax,
                    "mode": r.choice(["average", "sum", "slice"]), "out": out}
        if kind == "extrude":
            a = self._pick(r, desc, lambda d: d["dim"] == 2 and not d["series"])
            if a is None:
                return None
            desc[out] = {**desc[a], "dim": 3, "shape": None, "fam": False}
            return {"op": "extrude_along_axis", "a": a, "h": 2.0, "n": r.randint(1, 3), "out": out}
        if kind == "like":
            a = self._pick(r, desc, lambda d: True)
            desc[out] = {**desc[a], "fam": False}
            return {"op": r.choice(["zeros_like", "ones_like"]), "a": a, "mode": r.choice(["shape", "voxels"]),
                    "t": r.choice([None, "float32", "bool"]), "out": out}
        if kind == "model":
            a = r.choice(["arr2", self._pick(r, desc, fam) or "arr2"])
            m = r.choice(["clip", "scaling", "linear", "hetero", "combined", "threshold"])
            op = {"op": "model", "a": a, "model": m, "out": None}
            if m == "hetero":
                op.update(labels="labels", n=3, a="arr2")
            if m in ("threshold", "combined"):
                op["a"] = "arr2"
            if m == "scaling":
                op["s"] = r.choice([1.0, 2.0])
            return op
        if kind == "geometry":
            a = self._pick(r, desc, lambda d: d["shape"] is not None and not d["chan"] and d["dtype"] in ("float32", "float64"))
            if a is None:
                return None
            op = {"op": "geometry", "a": a, "what": "integrate", "out": None}
            if desc[a]["dim"] == 2 and desc[a]["shape"] == base_shape and not desc[a]["series"]:
                op["nv"] = "nv2"
                op["dims"] = "dims2"
                if r.random() < 0.4:
                    op["weight"] = "arr2"
                if r.random() < 0.4:
                    b = self._pick(r, desc, lambda d: fam(d) and d["dtype"] in ("float32", "float64"))
                    if b:
                        op.update(what="normalize", ref=b, out=out)
                        desc[out] = dict(desc[a])
            return op
        if kind == "distance":
            a, b = r.choice([("m0", "m1"), ("m1", "m0"), ("m0", "m2"), ("m2", "m0")])
            if r.random() < 0.15:
                cands = sorted(n for n, d in desc.items() if fam(d) and d["dtype"] in ("float64",))
                a, b = r.sample(cands, 2)
            m = r.choice(["newton", "bregman", "cv2.emd", "emd-class"])
            op = {"op": "distance", "a": a, "b": b, "method": m, "out": None}
            if m == "cv2.emd" and r.random() < 0.5:
                op["preprocess"] = "o_clipid"
            if m in ("newton", "bregman"):
                op["options"] = "w1opts"
                if r.random() < 0.4:
                    op["weight"] = r.choice(["wfam", "wzero"])
                if sources["w1opts"]["vals"]["linear_solver"] in ("amg", "cg") and r.random() < 0.4:
                    # fault: the k-th multigrid set-up fails after it has drawn random vectors (k >= 1: inside the
                    # iteration, where the library handles the failure and still returns a result)
                    op["fault"] = {"site": "amg-setup-post", "occurrence": r.randint(1, 2)}
            return op
        if kind == "objcall":
            which = r.choice(["o_resize", "o_reduce", "o_geom", "o_emd", "o_het", "o_clip", "o_resize", "o_geom"])
            if which == "o_resize":
                a = self._pick(r, desc, lambda d: d["dim"] == 2 and d["dtype"] in ("float32", "float64", "uint8"))
                if a is None:
                    return None
                arg = r.choice([a, a, "arr2"])
                if arg == "arr2":
                    return {"op": "objcall", "obj": which, "method": "call", "a": arg, "out": None}
                desc[out] = {**desc[a], "shape": None, "fam": False}
                return {"op": "objcall", "obj": which, "method": "call", "a": arg, "out": out}
            if which == "o_reduce":
                a = self._pick(r, desc, lambda d: d["dim"] == 3 and d["dtype"] in ("float32", "float64"))
                if a is None:
                    return None
                desc[out] = {**desc[a], "dim": 2, "shape": None, "fam": False}
                return {"op": "objcall", "obj": which, "method": "call", "a": a, "out": out}
            if which == "o_geom":
                a = self._pick(r, desc, lambda d: d["dim"] == 2 and not d["chan"] and d["dtype"] in ("float32", "float64") and d["shape"] is not None)
                if a is None:
                    return None
                return {"op": "objcall", "obj": which, "method": "integrate", "a": a, "out": None}
            if which == "o_emd":
                return {"op": "objcall", "obj": which, "method": "call", "a": "m0", "b": "m1", "out": None}
            return {"op": "objcall", "obj": which, "method": "call", "a": r.choice(["arr2", self._pick(r, desc, fam) or "arr2"]) if which == "o_clip" else "arr2", "out": None}
        if kind == "box":
            if r.random() < 0.5:
                return {"op": "bounding_box", "pts": "pts", "pad": r.randint(0, 2), "max": r.choice([None, "max_size"]), "out": None}
            return {"op": "bounding_box_inverse", "box": "box", "out": None}
        if kind == "patches":
            return {"op": "random_patches", "mask": "mask", "w": 2, "n": r.randint(1, 4), "out": None}
        if kind == "ctor":
            w = r.choice(["Image", "Image", "ScalarImage", "Geometry", "Grid", "OpticalImage", "generate_grid"])
            op = {"op": "ctor", "cls": w, "arr": "arr2", "out": out if w in ("Image", "ScalarImage") else None}
            if w == "generate_grid":
                op["img"] = self._pick(r, desc, lambda d: d["shape"] is not None) or "f0"
                return op
            if w == "OpticalImage":
                op["dims"] = "dims2"
                if r.random() < 0.5:
                    op["height"] = 5.0
                return op
            if w in ("Image", "ScalarImage"):
                how = r.choice(["dims", "dims+height", "dims+width", "meta", "origin", "dates"])
                if how == "dates":
                    op["dims"] = "dims2"
                    op["dates"] = "dates"
                    desc[out] = {"t": "image", "cls": w, "dim": 2, "shape": list(base_shape), "chan": 0, "series": sources["dates"]["n"],
                                 "dtype": sources["arr2"]["dtype"], "time": "date", "fam": False}
                    return op
                if how.startswith("dims"):
                    op["dims"] = "dims2"
                    if how == "dims+height":
                        op["height"] = 7.0
                    if how == "dims+width":
                        op["width"] = 9.0
                elif how == "meta":
                    op["meta"] = "meta"
                else:
                    op["dims"] = "dims2"
                    op["origin"] = "dims2"
                desc[out] = {"t": "image", "cls": w, "dim": 2, "shape": list(base_shape), "chan": 0, "series": 0,
                             "dtype": sources["arr2"]["dtype"], "time": "none", "fam": False}
            elif w == "Geometry":
                op.update(nv="nv2", dims="dims2")
            else:
                op["voxel_size"] = "dims2"
            return op
        return None

    # ------------------------------------------------------------------ execution
    def execute(self, case: dict) -> Outcome:
        out = Outcome()
        out.event(seed=case.get("seed"))
        pool = {}
        with warnings.catch_warnings():
            warnings.simplefilter("ignore")
            for n, sp in case["sources"].items():
                pool[n] = make_source(sp)
            pool["box"] = (slice(1, 3), slice(0, 2))
            if "f0" in pool:
                pool["wfam"] = darsia.ones_like(pool["f0"]) if pool["f0"].img.dtype.kind == "f" else None
                if pool["wfam"] is None:
                    del pool["wfam"]
            for ln, members in case.get("lists", {}).items():
                pass  # lists are materialised lazily (their members may be results of earlier steps)
            np.random.seed(case.get("seed", 0) % 2**32)
            random.seed(case.get("seed", 0))
            used_before: dict = {}
            derived = set()
            forms_seq = []
            for step, op in enumerate(case["program"]):
                form = op["op"]
                fn, refs = REGISTRY[form]
                # materialise caller-owned lists of images
                if "lst" in op:
                    members = case["lists"][op["lst"]]
                    if any(m not in pool for m in members):
                        out.counters["probe:skipped-missing-operand"] += 1
                        out.event(step=step, op=form, skipped=True)
                        continue
                    pool[op["lst"]] = [pool[m] for m in members]
                operands = [op[k] for k in refs if isinstance(op.get(k), str)]
                if "lst" in op:
                    operands += list(case["lists"][op["lst"]])
                if any(o not in pool for o in operands):
                    out.counters["probe:skipped-missing-operand"] += 1
                    out.event(step=step, op=form, skipped=True)
                    continue
                before = {n: snap(o) for n, o in pool.items()}
                rng_before = rng_token()
                cv_rng_arm(1000 + step)
                dep = install_depfault(op["depfault"]) if op.get("depfault") else None
                try:
                    res, exc = fn(pool, op), None
                except (Exception, KeyboardInterrupt) as e:  # noqa
                    res, exc = None, type(e).__name__
                finally:
                    if dep:
                        setattr(dep[0], dep[1], dep[2])
                        out.counters["fault:dependency-" + ("raised" if dep[3].fired else "not-reached")] += 1
                        if dep[3].fired and exc is None:
                            out.counters["probe:call-returned-despite-dependency-failure"] += 1
                cv_ok = cv_rng_untouched(1000 + step)
                after = {n: snap(o) for n, o in pool.items()}
                rng_after = rng_token()
                out.counters["op:" + form] += 1
                if op.get("fault"):
                    fired = bool(FAULTS_FIRED and FAULTS_FIRED[-1])
                    del FAULTS_FIRED[:]
                    out.counters["fault:amg-setup-post-" + ("fired" if fired else "not-reached")] += 1
                    if fired and exc is None:
                        out.counters["probe:faulted-call-returned-normally"] += 1
                label = self._form_label(op)
                forms_seq.append(label)
                changed = []
                for n in pool:
                    if before[n] != after[n]:
                        path = first_diff(before[n], after[n])
                        role = self._role(op, n, case)
                        changed.append((n, role, path))
                out.event(step=step, op=label, operands=operands, exc=exc, result=_summ(res),
                          changed=[[n, ro, p] for n, ro, p in changed])
                # sharing pattern / non-triviality
                shared = [o for o in operands if o in used_before or o in derived]
                if shared:
                    out.nontrivial.add(">".join(forms_seq[-4:]) + "|" + ",".join(
                        sorted({("D" if o in derived else "S") + str(len(used_before.get(o, []))) for o in shared})))
                for o in operands:
                    used_before.setdefault(o, []).append(step)
                if exc is not None:
                    out.counters["probe:raised(" + exc + ")"] += 1
                    if not (dep and dep[3].fired):
                        out.counters[f"probe:organic-raise({label}:{exc})"] += 1  # calls that claim nothing: watch the share per call form
                    if changed:
                        out.counters["probe:raising-call-modified-arguments"] += 1
                        # the statement is about the arguments after the operation, however it ended: a call that raises
                        # (on its own or because a dependency failed under it) must not leave them modified either
                        for n, role, path in changed:
                            if form == "objcall" and role == "obj":
                                continue
                            top = path.split("[")[0].split(".")[1] if path.startswith(".") else path.split("[")[0] or "item"
                            out.violate("C17.A", f"{label}:{role}:{top}:call-raised", step, operand=n, path=path,
                                        before=before[n].get(path), after=after[n].get(path), op=op, exc=exc)
                    if rng_before[0] != rng_after[0] or rng_before[1] != rng_after[1]:
                        out.violate("C17.G", f"{label}:global-rng:call-raised", step, op=op, exc=exc)
                    if form in ("mul", "rmul") and self._in_E_domain(pool, op) and not (dep and dep[3].fired):
                        out.violate("C17.E", f"{form}:{type(op['b']).__name__}-scalar:raises-{exc}", step, op=op,
                                    dtype=str(pool[op['a']].img.dtype))
                    continue
                changed_names = {n for n, _, _ in changed}
                for n, role, path in changed:
                    if n in case.get("lists", {}) and path.startswith("["):
                        idx = int(path[1:path.index("]")])
                        members = case["lists"][n]
                        if idx < len(members) and members[idx] in changed_names and path[path.index("]") + 1:]:
                            continue  # the member itself is reported; the list only aliases it
                    if form == "objcall" and role == "obj":
                        out.counters["probe:receiver-state-changed(" + op["obj"] + ")"] += 1
                        continue  # the receiver of a method call may keep caches; its arguments and bystanders may not change
                    if form in RETURNS_SELF_RESET and role == "a" and path.startswith(".origin"):
                        out.counters["probe:documented-self-reset"] += 1
                        continue
                    top = path.split("[")[0].split(".")[1] if path.startswith(".") else path.split("[")[0] or "item"
                    out.violate("C17.A", f"{label}:{role}:{top}", step, operand=n, path=path, before=before[n].get(path),
                                after=after[n].get(path), op=op)
                if rng_before[0] != rng_after[0]:
                    out.violate("C17.G", f"{label}:numpy-global-rng", step, op=op)
                if rng_before[1] != rng_after[1]:
                    out.violate("C17.G", f"{label}:python-global-rng", step, op=op)
                if not cv_ok:
                    out.violate("C17.G", f"{label}:opencv-global-rng", step, op=op)
                if form in ("add", "sub", "mul", "rmul", "lt", "gt", "eq", "le", "ge") and self._in_E_domain(pool, op):
                    try:
                        exp = numpy_expectation(pool, op)
                        got = res.img
                        if not (got.shape == exp.shape and np.array_equal(got, exp, equal_nan=True) and got.dtype == exp.dtype):
                            out.violate("C17.E", f"{form}:differs-from-numpy", step, op=op, got=_summ(got), expected=_summ(exp))
                        else:
                            out.counters["probe:arithmetic-checked"] += 1
                    except Exception:
                        out.counters["probe:numpy-expectation-raised"] += 1
                if op.get("out") and res is not None:
                    pool[op["out"]] = res
                    derived.add(op["out"])
        return out

    @staticmethod
    def _in_E_domain(pool, op):
        """Every image x documented scalar (int, float) combination: the statement makes no exception (a first version
        excluded the combinations for which numpy changes the dtype; two independent reviewers read the statement
        literally, DESIGN 8.9)."""
        return True

    @staticmethod
    def _form_label(op):
        f = op["op"]
        if f == "weight":
            w = op["w"]
            return "weight-" + ("image" if isinstance(w, str) else type(w).__name__)
        if f == "distance":
            return "distance-" + op["method"]
        if f == "ctor":
            extra = "+".join(("extent" if k in ("height", "width", "depth") else k)
                             for k in ("dims", "height", "width", "origin", "meta", "dates") if op.get(k) is not None)
            return f"ctor-{'image' if op['cls'] in ('Image', 'ScalarImage', 'OpticalImage') else op['cls']}({extra})"
        if f == "model":
            return "model-" + op["model"]
        if f == "geometry":
            return "geometry-" + op["what"]
        if f == "resize":
            return "resize-" + op["via"]
        if f in ("mul", "rmul"):
            return f"{f}-{type(op['b']).__name__}"
        if f == "objcall":
            return f"objcall-{op['obj'][2:]}"
        return f

    @staticmethod
    def _role(op, name, case):
        for k, v in op.items():
            if isinstance(v, str) and v == name and k not in ("op", "out", "form", "via", "method", "model", "mode", "what", "cls", "t", "cs", "key", "interpolation"):
                return k
        if "lst" in op and name in case["lists"].get(op["lst"], []):
            return f"lst[{case['lists'][op['lst']].index(name)}]"
        if name == "w1opts" and op.get("options") == name:
            return "options"
        return "bystander"

    # ------------------------------------------------------------------ shrinking
    def shrink_candidates(self, case):
        for j, op in enumerate(case["program"]):
            if op.get("depfault"):
                k = copy.deepcopy(case)
                k["program"][j].pop("depfault")
                yield k
        n = len(case["program"])
        for j in range(n):
            if n > 1:
                k = copy.deepcopy(case)
                del k["program"][j]
                yield k
        used = set()
        for op in case["program"]:
            for v in op.values():
                if isinstance(v, str):
                    used.add(v)
            if "lst" in op:
                used.update(case["lists"].get(op["lst"], []))
        for name in list(case["sources"]):
            if name not in used and name not in ("f0", "box"):
                k = copy.deepcopy(case)
                del k["sources"][name]
                yield k
        for ln, members in case.get("lists", {}).items():
            if len(members) > 2:
                for j in range(len(members)):
                    k = copy.deepcopy(case)
                    del k["lists"][ln][j]
                    yield k


def _summ(x):
    if x is None:
        return None
    if isinstance(x, darsia.Image):
        return ["Image", type(x).__name__, _summ(x.img)]
    if isinstance(x, np.ndarray):
        return ["nd", str(x.dtype), list(x.shape), hashlib.sha1(np.ascontiguousarray(x).tobytes()).hexdigest()[:12]]
    if isinstance(x, (float, int, bool, np.floating, np.integer)):
        return x
    if isinstance(x, (list, tuple)):
        return [_summ(v) for v in x[:6]]
    return type(x).__name__
