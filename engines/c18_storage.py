"""C18 engine: save / reload of images and corrections through a simulated storage layer.

System under simulation: a scratch directory behind a storage seam (``open`` / ``os.mkdir``
proxies that can raise ``OSError`` at the n-th open / write / flush / close / read), the
ImageMagick subprocess stub, and the process boundary: a run is cut into segments, each
executed in its own fork of a pristine process ("restart": only the files survive).  A small
in-memory model maps every path to *acknowledged* (a save returned normally), *indeterminate*
(a faulted save touched it) or *absent*, with the snapshot taken at save time.
"""

from __future__ import annotations

import builtins
import copy
import datetime
import errno
import io
import os
import shutil
import tempfile
import warnings

import cv2
import numpy as np
import skimage

import darsia
import darsia.image.imread as imread_mod
from dsim import kernel
from dsim.kernel import Engine, HarnessError, Outcome, substream
from engines.c17_no_mutation import snap

ERRNOS = {"ENOSPC": errno.ENOSPC, "EIO": errno.EIO, "EACCES": errno.EACCES, "EMFILE": errno.EMFILE}
DT0 = datetime.datetime(2022, 10, 12, 11, 2, 40)


# ----------------------------------------------------------------------------- storage seam
class _FileProxy:
    def __init__(self, real, store, path, mode):
        self._f, self._s, self._path, self._mode = real, store, path, mode

    def __getattr__(self, n):
        return getattr(self._f, n)

    def __enter__(self):
        return self

    def __exit__(self, *a):
        self.close()
        return False

    def __iter__(self):
        return iter(self._f)

    def write(self, data):
        self._s.hit("write", self._path)
        n = self._f.write(data)
        self._s.bytes_written[self._path] = self._s.bytes_written.get(self._path, 0) + len(data)
        return n

    def read(self, *a):
        self._s.hit("read", self._path)
        return self._f.read(*a)

    def readinto(self, b):
        self._s.hit("read", self._path)
        return self._f.readinto(b)

    def flush(self):
        self._s.hit("flush", self._path)
        return self._f.flush()

    def close(self):
        if not self._f.closed and ("w" in self._mode or "a" in self._mode or "+" in self._mode):
            try:
                self._s.hit("close", self._path)
            except OSError:
                self._f.close()
                raise
        return self._f.close()


class Storage:
    """Owns every Python-level file access below the scratch root."""

    def __init__(self, root):
        self.root = os.path.realpath(root)
        self.plan = {}      # (site, occurrence) -> errno name, armed per step
        self.count = {}
        self.fired = []
        self.bytes_written = {}
        self.opens = 0
        self._open, self._mkdir = builtins.open, os.mkdir

    def inside(self, path):
        try:
            p = os.path.realpath(os.fspath(path))
        except TypeError:
            return False
        return p == self.root or p.startswith(self.root + os.sep)

    def hit(self, site, path):
        i = self.count.get(site, 0)
        self.count[site] = i + 1
        e = self.plan.get((site, i))
        if e:
            self.fired.append((site, i, e))
            if e == "INTERRUPT":
                raise KeyboardInterrupt(f"injected interrupt at {site}#{i}")
            raise OSError(ERRNOS[e], f"injected {e} at {site}#{i}", os.fspath(path))

    def install(self):
        st = self

        def _open(file, mode="r", *a, **k):
            if isinstance(file, (str, bytes, os.PathLike)) and st.inside(file):
                st.opens += 1
                st.hit("open", file)
                return _FileProxy(st._open(file, mode, *a, **k), st, os.fspath(file), mode)
            return st._open(file, mode, *a, **k)

        def _mkdir(path, *a, **k):
            if st.inside(path):
                st.hit("mkdir", path)
            return st._mkdir(path, *a, **k)
        builtins.open = _open
        io.open = _open
        os.mkdir = _mkdir

    def uninstall(self):
        builtins.open = self._open
        io.open = self._open
        os.mkdir = self._mkdir

    def _mkdir_real_tree(self, d):
        """Create a directory tree on behalf of the caller, bypassing the fault seam."""
        parts = []
        while d and not os.path.isdir(d):
            parts.append(d)
            d = os.path.dirname(d)
        for q in reversed(parts):
            self._mkdir(q)

    def arm(self, faults):
        self.plan = {(f["site"], f["occurrence"]): f["errno"] for f in faults}
        self.count = {}
        self.fired = []


# ----------------------------------------------------------------------------- generators from ids
def gen_image(spec):
    g = np.random.default_rng(90_000 + spec["id"])
    shape = tuple(spec["shape"])
    T, C = spec.get("series", 0), spec.get("chan", [])
    full = shape + ((T,) if T else ()) + tuple(C)
    a = np.round(g.uniform(0.0, 1.0, size=full) * 256) / 256
    dt = spec["dtype"]
    if dt == "bool":
        a = a > 0.5
    elif dt == "uint8":
        a = np.minimum(a * 256, 255).astype(np.uint8)
    elif dt == "uint16":
        a = np.minimum(a * 65536, 65535).astype(np.uint16)
    else:
        a = a.astype(dt)
    kw = {"space_dim": len(shape), "series": bool(T), "scalar": not C,
          "dimensions": [float(x) for x in spec["dims"]]}
    if spec.get("origin") is not None:
        kw["origin"] = list(spec["origin"])
    if spec.get("name") is not None:
        kw["name"] = spec["name"]
    tm = spec.get("time", "none")
    n = T or 1
    dates = [DT0 + datetime.timedelta(seconds=37 * i + spec.get("t0", 0)) for i in range(n)]
    tzi = datetime.timezone(datetime.timedelta(hours=spec["tz"])) if spec.get("tz") is not None else None
    if tzi is not None or spec.get("fold"):
        # time-zone aware stamps (what %z metadata give) and stamps in the repeated hour of a daylight-saving switch (fold=1)
        dates = [d.replace(tzinfo=tzi, fold=1 if spec.get("fold") and i % 2 == 0 else 0) for i, d in enumerate(dates)]
    times = [float(5 * i + spec.get("t0", 0)) for i in range(n)]
    if tm in ("date", "both"):
        kw["date"] = dates if T else dates[0]
    if tm in ("time", "both"):
        kw["time"] = times if T else times[0]
    if tm == "both":
        kw["reference_date"] = (DT0 - datetime.timedelta(seconds=100)).replace(tzinfo=tzi, fold=1 if spec.get("fold") else 0)
    with warnings.catch_warnings():
        warnings.simplefilter("ignore")
        cls = spec.get("cls", "Image")
        if cls == "OpticalImage":
            kw.pop("space_dim")
            kw.pop("scalar")
            img = darsia.OpticalImage(a, color_space=spec.get("color_space", "RGB"), **kw)
            if spec.get("to_space"):
                # the documented conversion: the image is then in one of the five trichromatic spaces
                img = img.to_trichromatic(spec["to_space"], return_image=True)
        elif cls == "ScalarImage":
            kw.pop("scalar")
            img = darsia.ScalarImage(a, **kw)
        else:
            img = darsia.Image(a, **kw)
        if spec.get("img_as"):
            # what the optical readers do: integer data converted to floats; the image remembers its origin
            img = img.img_as({"float": float, "float32": np.float32}[spec["img_as"]])
        return img


def image_token(img) -> dict:
    """Pixel data, dtype and public metadata of an image (what the statement names)."""
    t = snap(np.asarray(img.img), "img")
    t["kind"] = type(img).__name__
    t["original_dtype"] = str(np.dtype(img.original_dtype))
    md = img.metadata()
    for k in sorted(md):
        # the attribute itself, not what metadata() reports about it (metadata() is code under test)
        v = getattr(img, k) if hasattr(img, k) else md[k]
        if isinstance(v, np.ndarray):
            v = np.asarray(v, dtype=float)  # Coordinate subclasses: compare values
        snap(v, "meta." + k, t)
    return t


def reload_token(img, keys, equivalence=True) -> dict:
    t = snap(np.asarray(img.img), "img")
    if equivalence:
        t["kind"] = type(img).__name__
        t["original_dtype"] = str(np.dtype(getattr(img, "original_dtype", img.img.dtype)))
    md = img.metadata()
    for k in keys:
        v = getattr(img, k) if hasattr(img, k) else md.get(k, "<missing>")
        if isinstance(v, np.ndarray):
            v = np.asarray(v, dtype=float)
        snap(v, "meta." + k, t)
    return t


def textured(shape, seed, chan=3, dtype="uint8"):
    g = np.random.default_rng(95_000 + seed)
    h, w = shape
    a = g.uniform(0, 1, size=(h // 4 + 1, w // 4 + 1, chan))
    a = cv2.resize(a, (w, h), interpolation=cv2.INTER_NEAREST).reshape(h, w, chan)
    a = 0.7 * a + 0.3 * g.uniform(0, 1, size=(h, w, chan))
    if dtype == "uint8":
        return (a * 255).astype(np.uint8)
    if dtype == "uint16":
        return (a * 65535).astype(np.uint16)
    if dtype == "bool":
        return a > 0.5
    return a.astype(dtype)


def scene(shape, seed):
    """Synthetic photograph with strong corners (ORB features): filled rectangles and discs on a grey canvas."""
    g = np.random.default_rng(95_500 + seed)
    h, w = shape
    a = np.full((h, w, 3), 90, np.uint8)
    for _ in range(40):
        x, y = int(g.integers(0, w - 10)), int(g.integers(0, h - 10))
        dx, dy = int(g.integers(6, 30)), int(g.integers(6, 30))
        col = tuple(int(v) for v in g.integers(0, 256, 3))
        if g.random() < 0.6:
            cv2.rectangle(a, (x, y), (x + dx, y + dy), col, -1)
        else:
            cv2.circle(a, (x, y), int(dx / 2), col, -1)
    return a


def build_correction(spec):
    cv2.setRNGSeed(777)  # RNG seam: construction may run OpenCV's k-means (colour checker swatches)
    k = spec["kind"]
    if k == "type":
        T = {"float": float, "float32": np.float32, "float64": np.float64, "uint8": np.uint8, "uint16": np.uint16,
             "bool": bool, "int": int}[spec["data_type"]]
        return darsia.TypeCorrection(T)
    if k == "drift":
        base = scene(spec["shape"], spec["base"])
        cfg = {}
        if spec.get("roi"):
            cfg["roi"] = tuple(slice(a, b) for a, b in spec["roi"]) if spec["roi_form"] == "slices" else \
                [[spec["roi"][0][0], spec["roi"][1][0]], [spec["roi"][0][1], spec["roi"][1][1]]]
        if spec.get("padding") is not None:
            cfg["padding"] = spec["padding"]
        if spec.get("active") is not None:
            cfg["active"] = spec["active"]
        b = darsia.Image(base, space_dim=2, scalar=False, dimensions=[1.0, 1.0]) if spec.get("base_form") == "image" else base
        corr = darsia.DriftCorrection(b, cfg)
        if spec.get("edit_config_after_ctor"):
            cfg["active"] = not cfg.get("active", True)
            cfg["padding"] = 0.1
            cfg.pop("roi", None)
        return corr
    if k == "curvature":
        kw = {}
        if spec.get("interpolation_order") is not None:
            kw["interpolation_order"] = spec["interpolation_order"]
        if spec.get("resize_factor") is not None:
            kw["resize_factor"] = spec["resize_factor"]
        with warnings.catch_warnings():
            warnings.simplefilter("ignore")
            own = copy.deepcopy(spec["config"])
            corr = darsia.CurvatureCorrection(config=own, **kw)
        if spec.get("edit_config_after_ctor"):
            # the caller goes on using ITS dict (for the next correction): the constructed object is not affected
            for v in own.values():
                for kk in list(v):
                    if isinstance(v[kk], float):
                        v[kk] = v[kk] * 3.0 + 1e-4
            own.pop("init", None)
        return corr
    if k == "illumination":
        c = darsia.IlluminationCorrection()
        c.colorspace = spec["colorspace"]
        n = 3 if spec["colorspace"] == "rgb" else 1
        g = np.random.default_rng(96_000 + spec["id"])
        c.local_scaling = [darsia.Image(g.uniform(0.5, 1.5, size=tuple(spec["shape"])), space_dim=2, scalar=True,
                                        dimensions=[1.0, 2.0]) for _ in range(n)]
        return c
    if k == "color":
        h, w = spec["shape"]
        roi = darsia.make_voxel([[h - 2, 1], [h - 2, w - 2], [1, w - 2], [1, 1]])
        cfg = {"roi": roi, "balancing": spec["balancing"], "whitebalancing": spec["whitebalancing"],
               "colorbalancing": spec["colorbalancing"], "clip": spec["clip"], "active": spec.get("active", True)}
        base = None
        if spec.get("base") is not None:
            base = darsia.Image(textured(spec["shape"], spec["base"], dtype="float32"), space_dim=2, scalar=False,
                                dimensions=[1.0, 1.0])
        corr = darsia.ColorCorrection(base=base, config=cfg)
        if spec.get("edit_config_after_ctor"):
            # the caller re-uses ITS dict for another correction with other settings
            cfg["whitebalancing"] = not cfg["whitebalancing"]
            cfg["colorbalancing"] = "linear" if cfg["colorbalancing"] == "affine" else "affine"
            cfg["clip"] = not cfg["clip"]
            cfg["active"] = True
        return corr
    raise HarnessError(k)


PROBES = ["std", "flat", "alt"]


def correction_input(spec, probe="std"):
    """Probe inputs: 'std' the standard input, 'flat' a featureless constant frame, 'alt' another input."""
    if probe == "flat":
        x = correction_input(spec, "std")
        return np.full_like(x, 90 if x.dtype.kind in "ui" else 0.35)
    if probe == "alt":
        spec = {**spec, "input": spec.get("input", 0) + 1, "dx": -spec.get("dx", 2), "dy": spec.get("dy", 1) + 1}
    k = spec["kind"]
    if k == "type":
        return textured([6, 7], spec["input"], dtype=spec.get("input_dtype", "uint8"))
    if k == "drift":
        base = scene(spec["shape"], spec["base"])
        Mt = np.array([[1, 0, spec.get("dx", 2)], [0, 1, spec.get("dy", 1)]], np.float32)
        return cv2.warpAffine(base, Mt, (spec["shape"][1], spec["shape"][0]))
    if k == "curvature":
        return textured(spec["shape"], spec["input"], dtype=spec.get("input_dtype", "uint8"))
    if k == "illumination":
        return textured(spec["shape"], spec["input"], dtype="float64")
    if k == "color":
        return textured(spec["shape"], spec["input"], dtype=spec.get("input_dtype", "float32"))
    raise HarnessError(k)


def apply_correction(corr, spec, probe="std", rng=0):
    x = correction_input(spec, probe)
    # RNG seam: OpenCV's k-means / RANSAC draw from cv::theRNG; the state is owned by the harness and differs
    # between the stored and the reloaded object (rng=0 / rng=1), as it does between two sessions
    cv2.setRNGSeed(12345 + spec.get("input", 0) + 1000 * rng * spec.get("rng_skew", 1))
    np.random.seed(4321 + rng * spec.get("rng_skew", 1))
    with warnings.catch_warnings():
        warnings.simplefilter("ignore")
        try:
            if spec.get("as_image"):
                img = darsia.Image(x, space_dim=2, scalar=False, dimensions=[1.0, 2.0])
                r = corr(img)
                return ("ok", image_token(r))
            return ("ok", snap(np.asarray(corr(x)), "out"))
        except Exception as e:  # noqa
            return ("exc", type(e).__name__)


def apply_probes(corr, spec, order, rng=0):
    """Outputs of the correction for every probe input, applied in the given order (a correction must not
    depend on what it has seen before: the stored object and the reloaded one see the probes in different orders)."""
    probes = PROBES if spec["kind"] != "color" else ["std", "alt"]
    return {p: apply_correction(corr, spec, p, rng) for p in order if p in probes}


# ----------------------------------------------------------------------------- one segment, in a pristine fork
def run_segment(case, seg_steps, model, root, magick):
    """Executes steps [(index, op)] in this (fresh) process; returns events, model, violations, counters."""
    st = Storage(root)
    events, viol, counters = [], [], {}
    import sys
    sys.unraisablehook = lambda *a: None  # zipfile destructors re-raise injected errors when closing; not our subject

    def cnt(k, n=1):
        counters[k] = counters.get(k, 0) + n

    def stub_check_output(cmd, *a, **k):
        cnt("probe:imagemagick-" + magick)
        if magick == "absent":
            raise FileNotFoundError("identify")
        return (b"Image: x\n  date:create: 2022-10-12T11:02:40+02:00\n  date:modify: 2022-10-12T11:02:40+02:00\n  x: y\n")
    if not hasattr(imread_mod, "check_output"):
        raise HarnessError("seam missing: darsia.image.imread.check_output")
    imread_mod.check_output = stub_check_output
    os.chdir(root)
    st.install()
    try:
        for idx, op in seg_steps:
            faults = [f for f in case.get("faults", []) if f["step"] == idx]
            st.arm(faults)
            ev = {"step": idx, "op": op["op"]}
            k = op["op"]
            path = os.path.join(root, op["path"]) if op.get("path") and not op.get("relative") else op.get("path")
            try:
                if k == "save":
                    img = gen_image(case["images"][op["img"]])
                    tok = image_token(img)
                    key = norm_path(op["path"])
                    try:
                        with _quiet():
                            img.save(path, verbose=False) if op.get("pathlib") is None else img.save(__import__("pathlib").Path(path), verbose=False)
                        ok = True
                    except OSError as e:
                        ok = False
                        ev["exc"] = "OSError:" + errno.errorcode.get(e.errno, "?")
                    except KeyboardInterrupt:
                        ok = False
                        ev["exc"] = "KeyboardInterrupt"
                    if ok and st.fired:
                        # the library swallowed an injected error and acknowledged the save
                        cnt("probe:save-acknowledged-despite-fault")
                    if not ok and not st.fired:
                        # C18.L: no fault is active in this step, whatever earlier faulted saves left behind
                        viol.append({"oracle": "C18.L", "culprit": "save-fails-without-active-fault:" + ev.get("exc", "?"), "step": idx,
                                     "detail": {"path": key, "path_state_before": model.get(key, {}).get("state", "absent"),
                                                "image": case["images"][op["img"]]}})
                    if ok:
                        if model.get(key, {}).get("state") == "ack":
                            cnt("probe:overwrite-of-acknowledged-path")
                        retry = model.get(key, {}).get("state") == "indet"
                        model[key] = {"state": "ack", "tok": tok, "img": op["img"], "retry": retry}
                        if retry:
                            cnt("probe:save-retried-after-fault")
                        if not op["path"].endswith(".npz"):
                            cnt("probe:npz-suffix-appended")
                    else:
                        model[key] = {"state": "indet"}
                    ev["ack"] = ok
                elif k == "read":
                    key = norm_path(op["path"])
                    m = model.get(key, {"state": "absent"})
                    rpath = os.path.join(root, key) if not op.get("relative") else key
                    try:
                        with _quiet():
                            got = darsia.imread(rpath) if op.get("via", "imread") == "imread" else imread_mod.imread_from_npz(rpath)
                        rexc = None
                    except (Exception, KeyboardInterrupt) as e:  # noqa
                        got, rexc = None, type(e).__name__
                    ev.update(state=m["state"], exc=rexc)
                    if st.fired:
                        cnt("probe:read-under-fault")
                    if m["state"] == "ack" and not st.fired:
                        if rexc is not None:
                            viol.append({"oracle": "C18.R", "culprit": "acknowledged-save-unreadable:" + rexc, "step": idx,
                                         "detail": {"path": key, "image": case["images"][m["img"]], "after_restart": idx >= 0 and op.get("_after_restart", False)}})
                        else:
                            keys = sorted(x[5:].split("[")[0].split(".")[0] for x in m["tok"] if x.startswith("meta."))
                            rt = reload_token(got, sorted(set(keys)))
                            if rt != m["tok"]:
                                from engines.c17_no_mutation import first_diff
                                p = first_diff(m["tok"], rt)
                                top = p.split("[")[0]
                                viol.append({"oracle": "C18.R", "culprit": "reloaded-image-differs:" + top, "step": idx,
                                             "detail": {"path": key, "field": p, "saved": m["tok"].get(p), "reloaded": rt.get(p),
                                                        "image": case["images"][m["img"]]}})
                            else:
                                cnt("probe:roundtrip-verified")
                                if m.get("retry"):
                                    cnt("probe:retry-after-fault-verified")  # C18.L: once faults stop, a retried save holds
                                if op.get("_after_restart"):
                                    cnt("probe:reload-after-restart-verified")
                    elif m["state"] == "indet" and rexc is None:
                        cnt("probe:indeterminate-read-returned")
                    elif m["state"] == "ack" and st.fired and rexc is None and got is not None:
                        keys = sorted(x[5:].split("[")[0].split(".")[0] for x in m["tok"] if x.startswith("meta."))
                        if reload_token(got, sorted(set(keys))) != m["tok"]:
                            viol.append({"oracle": "C18.R", "culprit": "faulted-read-returned-wrong-data", "step": idx,
                                         "detail": {"path": key}})
                elif k == "npy":
                    spec = case["images"][op["img"]]
                    img = gen_image(spec)
                    np.save(path, img.img)  # the caller stores the bare array; the metadata travel as keyword arguments
                    md = {kk: v for kk, v in img.metadata().items() if kk != "color_space"}
                    with _quiet():
                        got = darsia.imread(path, **md)
                    if reload_token(got, sorted(md), equivalence=False) != {kk: v for kk, v in image_token(img).items()
                                                                            if not kk.startswith("meta.color_space") and kk not in ("kind", "original_dtype")}:
                        viol.append({"oracle": "C18.R", "culprit": "npy-array-with-metadata-differs", "step": idx,
                                     "detail": {"image": spec}})
                    else:
                        cnt("probe:npy-verified")
                elif k == "bytes":
                    arr = gen_bytes_array(op)
                    if op.get("encoder", "cv2") == "cv2":
                        enc = arr[..., ::-1] if arr.ndim == 3 and arr.shape[-1] == 3 else arr
                        okk, buf = cv2.imencode(op["ext"], enc)
                        data = buf.tobytes()
                    elif op["encoder"].startswith("raw-tiff:"):
                        data = encode_raw_tiff(arr, int(op["encoder"].split(":")[1]))
                    else:
                        # a lossless file produced by another program (Pillow), possibly with a compression scheme
                        # OpenCV cannot decode: then the call may raise, but must not return wrong data
                        from PIL import Image as _PI
                        bio = io.BytesIO()
                        pim = _PI.fromarray(arr[..., 0] if arr.ndim == 3 and arr.shape[-1] == 1 else arr)
                        if op["encoder"].startswith("pil-png-exif:"):
                            # a PNG written by a camera tool: carries an EXIF orientation tag; the byte string still
                            # encodes the array as it is
                            ex = _PI.Exif()
                            ex[0x0112] = int(op["encoder"].split(":")[1])
                            pim.save(bio, format="PNG", exif=ex)
                        else:
                            pim.save(bio, format="TIFF", compression=op["encoder"][4:])
                        data = bio.getvalue()
                    real_cv2 = imread_mod.cv2
                    if op.get("imdecode_fails"):
                        class _NoDecode:
                            def __getattr__(self, n):
                                return getattr(real_cv2, n)

                            def imdecode(self, *a, **kw):
                                cnt("fault:imdecode-returns-none")
                                return None
                        imread_mod.cv2 = _NoDecode()
                    try:
                        with _quiet():
                            got = darsia.imread_from_bytes(data, **({"color_space": "RGB"} if arr.ndim == 3 and arr.shape[-1] == 3 else {}))
                    finally:
                        imread_mod.cv2 = real_cv2
                    want_cls = "OpticalImage" if (arr.ndim == 3 and arr.shape[-1] == 3) else "ScalarImage"
                    want = arr[..., 0] if (arr.ndim == 3 and arr.shape[-1] == 1) else arr
                    if type(got).__name__ != want_cls:
                        viol.append({"oracle": "C18.B", "culprit": "decoded-image-kind", "step": idx,
                                     "detail": {"got": type(got).__name__, "want": want_cls, "op": op}})
                    elif got.img.dtype != want.dtype or not np.array_equal(got.img, want):
                        # a separate culprit for the one layout recorded as a known finding (K2), so that it covers nothing else
                        k2 = op.get("encoder") == "raw-tiff:2" and op["dtype"] == "uint16"
                        viol.append({"oracle": "C18.B", "culprit": "decoded-array-differs" + (":planar-16bit-rgb-tiff" if k2 else ""),
                                     "step": idx, "detail": {"op": op}})
                    else:
                        cnt("probe:bytes-verified")
                elif k == "optical_kw":
                    # another user of the process reads an optical file with non-default keyword arguments
                    spec = case["images"][op["img"]]
                    img = gen_image(spec)
                    with _quiet():
                        img.write(path)
                        darsia.imread(path, **op["kwargs"])
                    cnt("probe:foreign-imread-with-keywords")
                elif k == "optical":
                    spec = case["images"][op["img"]]
                    img = gen_image(spec)
                    with _quiet():
                        img.write(path)
                        got = darsia.imread(path)
                    rgb = img.to_trichromatic("RGB", return_image=True).img if img.color_space != "RGB" else img.img
                    want = skimage.img_as_float(rgb)
                    if type(got).__name__ != "OpticalImage" or getattr(got, "color_space", None) != "RGB":
                        viol.append({"oracle": "C18.O", "culprit": "optical-kind", "step": idx, "detail": {"op": op}})
                    elif got.img.shape != want.shape or not np.array_equal(got.img, want):
                        viol.append({"oracle": "C18.O", "culprit": "optical-colours-differ", "step": idx,
                                     "detail": {"op": op, "image": spec,
                                                "maxdiff": float(np.max(np.abs(got.img - want))) if got.img.shape == want.shape else "shape"}})
                    else:
                        cnt("probe:optical-verified")
                        if op.get("chain"):
                            # second hop: the image as read (float data of 8/16-bit origin) is written and read again
                            p2 = os.path.join(os.path.dirname(path), "hop2-" + os.path.basename(path))
                            with _quiet():
                                got.write(p2)
                                got2 = darsia.imread(p2)
                            if got2.img.shape != got.img.shape or not np.array_equal(got2.img, got.img):
                                viol.append({"oracle": "C18.O", "culprit": "optical-colours-differ-after-second-write", "step": idx,
                                             "detail": {"op": op, "image": spec,
                                                        "maxdiff": float(np.max(np.abs(got2.img - got.img))) if got2.img.shape == got.img.shape else "shape"}})
                            else:
                                cnt("probe:optical-second-hop-verified")
                    if magick == "present" and got.date is not None:
                        cnt("probe:date-from-imagemagick")
                elif k == "corr_save":
                    spec = case["corrections"][op["corr"]]
                    corr = build_correction(spec)
                    if op.get("use_first"):
                        # used before saving (fills e.g. the curvature cache); otherwise saved untouched and the
                        # reference outputs come from a twin object
                        res = apply_probes(corr, spec, ["std", "flat", "alt"])
                    else:
                        res = apply_probes(build_correction(spec), spec, ["std", "flat", "alt"])
                    key = norm_path(op["path"])
                    P = __import__("pathlib").Path(path if path.endswith(".npz") else path + ".npz")
                    # the caller provides an existing directory (TypeCorrection / DriftCorrection do not create it)
                    if not os.path.isdir(os.path.dirname(str(P))):
                        st._mkdir_real_tree(os.path.dirname(str(P)))
                    try:
                        with _quiet():
                            corr.save(P)
                        ok = True
                    except OSError as e:
                        ok = False
                        ev["exc"] = "OSError:" + errno.errorcode.get(e.errno, "?")
                    except KeyboardInterrupt:
                        ok = False
                        ev["exc"] = "KeyboardInterrupt"
                    if not ok and not st.fired:
                        viol.append({"oracle": "C18.L", "culprit": "correction-save-fails-without-active-fault:" + ev.get("exc", "?"),
                                     "step": idx, "detail": {"path": key, "correction": spec}})
                    model[key] = {"state": "ack", "corr": op["corr"], "out": res} if ok else {"state": "indet"}
                    ev["ack"] = ok
                elif k == "corr_read":
                    key = norm_path(op["path"])
                    m = model.get(key, {"state": "absent"})
                    P = __import__("pathlib").Path(os.path.join(root, key))
                    try:
                        with _quiet():
                            corr = darsia.read_correction(P)
                        rexc = None
                    except (Exception, KeyboardInterrupt) as e:  # noqa
                        corr, rexc = None, type(e).__name__
                    ev.update(state=m["state"], exc=rexc)
                    if m["state"] == "ack" and "corr" in m and not st.fired:
                        spec = case["corrections"][m["corr"]]
                        if rexc is not None:
                            viol.append({"oracle": "C18.C", "culprit": f"{spec['kind']}:saved-correction-unreadable:{rexc}",
                                         "step": idx, "detail": {"correction": spec}})
                        else:
                            res = apply_probes(corr, spec, ["flat", "alt", "std"], rng=1)
                            bad = [p for p in res if res[p] != m["out"].get(p)]
                            if bad:
                                p0 = bad[0]
                                what = "raises-or-not" if res[p0][0] != m["out"][p0][0] else "output-differs"
                                viol.append({"oracle": "C18.C", "culprit": f"{spec['kind']}:reloaded-correction-{what}", "step": idx,
                                             "detail": {"correction": spec, "probe": p0, "original": _short(m["out"][p0]),
                                                        "reloaded": _short(res[p0])}})
                            else:
                                cnt("probe:correction-roundtrip-verified(" + spec["kind"] + ")")
                                if all(v[0] == "exc" for v in res.values()):
                                    cnt("probe:correction-all-probes-raised")
            except HarnessError:
                raise
            except OSError as e:
                ev["exc"] = "OSError:" + errno.errorcode.get(e.errno, "?")
            except KeyboardInterrupt:
                ev["exc"] = "KeyboardInterrupt"
            except Exception as e:  # noqa - an op that raises claims nothing
                ev["exc"] = type(e).__name__
                cnt("probe:op-raised(" + k + ":" + type(e).__name__ + ")")
            for site, i, e in st.fired:
                cnt(f"fault:io-error-{site}-{e}")
            ev["faults"] = [list(f) for f in st.fired]
            cnt("op:" + k)
            events.append(ev)
    finally:
        st.uninstall()
    cnt("probe:python-level-opens", st.opens)
    return events, model, viol, counters


class _quiet:
    def __enter__(self):
        import contextlib
        self._w = warnings.catch_warnings()
        self._w.__enter__()
        warnings.simplefilter("ignore")
        self._r = contextlib.redirect_stdout(io.StringIO())
        self._r.__enter__()

    def __exit__(self, *a):
        self._r.__exit__(*a)
        self._w.__exit__(*a)
        return False


def _short(res):
    return res if res[0] == "exc" else ("ok", {k: v[:60] for k, v in list(res[1].items())[:3]})


def norm_path(p: str) -> str:
    """np.savez appends '.npz' when the name does not end with it."""
    return p if p.endswith(".npz") else p + ".npz"


def encode_raw_tiff(arr: np.ndarray, planar: int) -> bytes:
    """Minimal baseline TIFF writer (little endian, uncompressed, one strip per plane) for (H, W, 3) uint8/uint16
    RGB arrays.  planar=1: chunky RGBRGB...; planar=2: separate colour planes (PlanarConfiguration=2, what e.g.
    tifffile writes for (3, H, W) arrays)."""
    import struct
    h, w, c = arr.shape
    bits = 8 * arr.dtype.itemsize
    le = arr.astype(arr.dtype.newbyteorder("<"))
    strips = [le.tobytes()] if planar == 1 else [np.ascontiguousarray(le[..., i]).tobytes() for i in range(3)]
    n = len(strips)
    n_tags = 10
    data_offset = 8 + 2 + n_tags * 12 + 4
    extra = b""

    def add(b):
        nonlocal extra
        off = data_offset + len(extra)
        extra += b + (b"\x00" if len(b) % 2 else b"")
        return off
    bps = add(struct.pack("<3H", bits, bits, bits))
    offs = [add(x) for x in strips]
    if n == 1:
        so, sbc = offs[0], len(strips[0])
    else:
        so = add(struct.pack("<%dI" % n, *offs))
        sbc = add(struct.pack("<%dI" % n, *[len(x) for x in strips]))
    SHORT, LONG = 3, 4
    entries = [(256, LONG, 1, w), (257, LONG, 1, h), (258, SHORT, 3, bps), (259, SHORT, 1, 1), (262, SHORT, 1, 2),
               (273, LONG, n, so), (277, SHORT, 1, 3), (278, LONG, 1, h), (279, LONG, n, sbc), (284, SHORT, 1, planar)]
    ifd = struct.pack("<H", len(entries))
    for tag, typ, cnt, val in entries:
        ifd += struct.pack("<HHIHH", tag, typ, cnt, val, 0) if (typ == SHORT and cnt == 1) else struct.pack("<HHII", tag, typ, cnt, val)
    return b"II*\x00" + struct.pack("<I", 8) + ifd + struct.pack("<I", 0) + extra


def gen_bytes_array(op):
    g = np.random.default_rng(97_000 + op["id"])
    shape = tuple(op["shape"])
    if op["dtype"] == "uint8":
        return g.integers(0, 256, size=shape, dtype=np.uint8)
    return g.integers(0, 65536, size=shape, dtype=np.uint16)


class C18Engine(Engine):
    prop = "C18"
    name = "c18_storage"
    level = "exploration"
    quick_runs = 1600
    quick_budget_s = 150.0
    thorough_budget_s = 1500.0
    chunk = 20
    run_timeout_s = 600.0
    determinism_sample = 8
    needs_pristine_parent = True
    rule = ("One run = a program of <= 14 save / read / decode / optical-write / correction-save / correction-read steps on "
            "one scratch directory, cut by 0-2 process restarts (each segment runs in its own fork of a pristine process), "
            "with injected OSErrors at the n-th open/write/flush/close/read/mkdir of a step. Non-trivial = at least one "
            "acknowledged save followed by a read of the same path; distinct = distinct (image-kind signature or correction "
            "kind, op-kind sequence, fault pattern, restart position).")
    components_real = ["darsia.Image.save / imread / imread_from_npz / imread_from_bytes / OpticalImage.write", "numpy savez/load (zipfile + pickle)",
                       "OpenCV imencode/imdecode/imwrite/imread (C-level file I/O, fault-free)", "Type/Drift/Curvature/Illumination/Color corrections and read_correction",
                       "os.fork of a pristine process as restart"]
    components_stub = ["builtins.open / io.open / os.mkdir below the scratch root -> pass-through proxies with injectable OSError and byte accounting",
                       "darsia.image.imread.check_output -> ImageMagick absent (FileNotFoundError) or present (canned output)",
                       "cv2.setRNGSeed / np.random.seed before every correction application (RNG seam)"]
    assumptions = ["a save that raised promises nothing about its path (indeterminate); only saves that returned normally are checked",
                   "class of the reloaded object is not compared, its pixel data, dtype and every metadata key of the saved image are",
                   "cv2.imwrite/imread perform C-level I/O outside the storage seam and run fault-free",
                   "seam names trusted: builtins.open, io.open, os.mkdir, darsia.image.imread.check_output"]

    def check_seams(self):
        if not hasattr(imread_mod, "check_output"):
            raise HarnessError("seam missing: darsia.image.imread.check_output")
        for n in ("imread", "imread_from_bytes", "read_correction", "TypeCorrection", "DriftCorrection",
                  "CurvatureCorrection", "IlluminationCorrection", "ColorCorrection"):
            if not hasattr(darsia, n):
                raise HarnessError(f"seam missing: darsia.{n}")

    # ------------------------------------------------------------------ generation
    def _image_spec(self, r):
        cls = r.choice(["Image", "Image", "Image", "ScalarImage", "OpticalImage"])
        if cls == "OpticalImage":
            spec = {"cls": cls, "shape": [r.randint(2, 5), r.randint(2, 5)], "chan": [3],
                    "dtype": r.choice(["uint8", "uint16", "float32", "float64"]), "color_space": r.choice(["RGB", "BGR", "HSV"])}
            if spec["color_space"] != "HSV" and spec["dtype"] != "uint16" and r.random() < 0.35:
                spec["to_space"] = r.choice(["HSV", "HLS", "LAB"])
        else:
            d = r.choice([1, 2, 2, 3])
            spec = {"cls": cls, "shape": [r.randint(1, 5) for _ in range(d)],
                    "dtype": r.choice(["bool", "uint8", "uint16", "float32", "float64"])}
            if cls == "Image" and r.random() < 0.35:
                spec["chan"] = r.choice([[1], [2], [3], [2, 2]])
        if spec["dtype"] in ("uint8", "uint16") and r.random() < 0.25:
            spec["img_as"] = r.choice(["float", "float", "float32"])
        if r.random() < 0.4:
            spec["series"] = r.randint(1, 4)
        spec["time"] = r.choice(["none", "date", "time", "both"])
        if spec["time"] in ("date", "both"):
            if r.random() < 0.25:
                spec["tz"] = r.choice([2, -5, 0])
            if r.random() < 0.2:
                spec["fold"] = True
        spec["t0"] = r.choice([0, 3, 1000])
        spec["dims"] = [r.choice([1e-4, 0.5, 1.0, 3.0, 1e4]) for _ in spec["shape"]]
        if r.random() < 0.4:
            spec["origin"] = [r.choice([0.0, -1.5, 2.0, 1e3]) for _ in spec["shape"]]
        if r.random() < 0.4:
            spec["name"] = r.choice(["tracer", "img 1", ""])
        spec["id"] = r.randint(0, 99999)
        return spec

    def _corr_spec(self, r):
        spec = self._corr_spec0(r)
        if spec["kind"] in ("drift", "curvature", "color") and r.random() < 0.5:
            spec["edit_config_after_ctor"] = True
        return spec

    def _corr_spec0(self, r):
        k = r.choice(["type", "drift", "curvature", "illumination", "color"])
        if k == "type":
            return {"kind": k, "data_type": r.choice(["float", "float32", "float64", "uint8", "uint16", "bool", "float", "int"]),
                    "input": r.randint(0, 999), "input_dtype": r.choice(["uint8", "float64", "float32", "uint16", "bool"]),
                    "as_image": r.random() < 0.3}
        if k == "drift":
            shape = [r.choice([140, 160]), r.choice([160, 200])]
            spec = {"kind": k, "shape": shape, "base": r.randint(0, 999), "dx": r.randint(-3, 3), "dy": r.randint(-3, 3),
                    "base_form": r.choice(["array", "image"]), "active": r.choice([None, True, False]),
                    "padding": r.choice([None, 0.0, 0.05])}
            if r.random() < 0.6:
                spec["roi"] = [[r.randint(0, 40), shape[0] - r.randint(0, 40)], [r.randint(0, 60), shape[1] - r.randint(0, 60)]]
                spec["roi_form"] = r.choice(["slices", "points"])
            return spec
        if k == "curvature":
            h, w = r.choice([20, 30]), r.choice([24, 36])
            cfg = {}
            if r.random() < 0.6:
                cfg["init"] = {"horizontal_bulge": r.choice([0.0, 1e-4, -2e-4]), "horizontal_center_offset": 0,
                               "vertical_bulge": r.choice([0.0, 1e-4]), "vertical_center_offset": r.choice([0, 2])}
            if r.random() < 0.6:
                cfg["crop"] = {"pts_src": [[1, 1], [2, h - 2], [w - 2, h - 3], [w - 3, 1]], "width": 1.5, "height": 1.0}
            if r.random() < 0.5:
                cfg["bulge"] = {"horizontal_bulge": r.choice([0.0, 3e-4]), "horizontal_center_offset": r.choice([0, -1]),
                                "vertical_bulge": r.choice([-2e-4, 1e-4]), "vertical_center_offset": 0}
            if r.random() < 0.5:
                cfg["stretch"] = {"horizontal_stretch": r.choice([1e-4, -1e-4]), "horizontal_center_offset": r.choice([0, 3]),
                                  "vertical_stretch": r.choice([0.0, 2e-4]), "vertical_center_offset": 0}
            return {"kind": k, "shape": [h, w], "config": cfg, "input": r.randint(0, 999),
                    "input_dtype": r.choice(["uint8", "float32"]),
                    "interpolation_order": r.choice([None, None, None, 1, 0, 3]), "as_image": r.random() < 0.3,
                    "resize_factor": r.choice([None, None, 0.5, 2.0])}
        if k == "illumination":
            return {"kind": k, "shape": [r.randint(3, 6), r.randint(3, 6)], "id": r.randint(0, 999), "input": r.randint(0, 999),
                    "colorspace": r.choice(["rgb", "rgb-scalar", "lab", "lab-scalar", "hsl", "hsl-scalar", "gray"])}
        return {"kind": "color", "shape": [40, 60], "input": r.randint(0, 999), "base": r.choice([None, r.randint(0, 99)]),
                "balancing": r.choice(["darsia", "darsia", "colour"]), "whitebalancing": r.random() < 0.7,
                "colorbalancing": r.choice(["affine", "linear"]), "clip": r.random() < 0.5,
                "active": r.choice([True, True, False]), "input_dtype": r.choice(["float32", "uint8", "float64"])}

    def generate(self, seed: int, tier: str) -> dict:
        cfg = substream(seed, "config")
        wl = substream(seed, "workload")
        fl = substream(seed, "faults")
        images = {f"im{i}": self._image_spec(wl) for i in range(cfg.randint(2, 4))}
        corrs = {f"co{i}": self._corr_spec(wl) for i in range(cfg.choice([0, 1, 2, 2]))}
        paths = ["a.npz", "b", "sub/c.npz", "sub/deep/d", "e.v1.npz"][: cfg.randint(2, 5)]
        if cfg.random() < 0.3:
            # unusual but legal file names: blanks, non-ASCII, several dots, a leading dot, an upper-case suffix
            paths += cfg.sample(["my image.npz", "bild_\u00fc\u00f1.npz", "x.tar.gz.npz", ".hidden.npz", "UPPER.NPZ", "dir with space/f.npz"], 2)
        cpaths = ["k0.npz", "corr/k1.npz"]
        prog = []
        n = cfg.randint(3, 16 if tier == "thorough" else 12)
        saved, csaved = [], []
        for _ in range(n):
            kind = wl.choices(["save", "read", "bytes", "optical", "corr_save", "corr_read", "npy", "optical_kw"],
                              [6, 7, 2, 2, 3 if corrs else 0, 4 if corrs else 0, 1, 1])[0]
            if kind == "save":
                p = wl.choice(paths)
                prog.append({"op": "save", "img": wl.choice(sorted(images)), "path": p, "pathlib": wl.choice([None, None, True]),
                             "relative": wl.random() < 0.2})  # relative to the working directory (= the scratch root)
                saved.append(p)
            elif kind == "npy":
                prog.append({"op": "npy", "img": wl.choice(sorted(images)), "path": wl.choice(["arr0.npy", "sub/arr1.npy"])})
            elif kind == "read":
                p = wl.choice(saved) if saved and wl.random() < 0.9 else wl.choice(paths)
                prog.append({"op": "read", "path": p, "via": wl.choice(["imread", "imread", "npz"]), "relative": wl.random() < 0.2})
            elif kind == "bytes":
                chan = wl.choice([None, 1, 3])
                shape = [wl.randint(1, 6), wl.randint(1, 6)] + ([chan] if chan else [])
                dt = wl.choice(["uint8", "uint16"])
                op = {"op": "bytes", "shape": shape, "dtype": dt, "ext": wl.choice([".png", ".tiff", ".tif"]), "id": wl.randint(0, 9999)}
                if wl.random() < 0.35 and not (dt == "uint16" and chan == 3):
                    op["encoder"] = wl.choice(["pil:raw", "pil:tiff_lzw", "pil:tiff_adobe_deflate", "pil:tiff_lzma", "pil:zstd",
                                               "pil:packbits", "pil-png-exif:3", "pil-png-exif:6", "pil-png-exif:1", "pil-png-exif:8"])
                if chan == 3 and wl.random() < 0.25:
                    op["encoder"] = wl.choice(["raw-tiff:1", "raw-tiff:2"])  # hand-written baseline TIFF, chunky or planar
                    op["ext"] = ".tif"
                if wl.random() < 0.1:
                    op["imdecode_fails"] = True
                prog.append(op)
            elif kind == "optical_kw":
                name = f"opt{len(images)}"
                images[name] = {"cls": "OpticalImage", "shape": [wl.randint(2, 5), wl.randint(2, 5)], "chan": [3], "dtype": "uint8",
                                "color_space": "RGB", "time": "none", "t0": 0, "dims": [1.0, 2.0], "id": wl.randint(0, 9999)}
                prog.append({"op": "optical_kw", "img": name, "path": "foreign.png",
                             "kwargs": wl.choice([{"color_space": "BGR"}, {"name": "foreign", "width": 3.0}, {"color_space": "BGR", "name": "x"}])})
            elif kind == "optical":
                name = f"opt{len(images)}"
                dt = wl.choice(["uint8", "uint8", "uint16"])
                images[name] = {"cls": "OpticalImage", "shape": [wl.randint(1, 6), wl.randint(1, 6)], "chan": [3], "dtype": dt,
                                "color_space": wl.choice(["RGB", "RGB", "BGR"]), "time": wl.choice(["none", "date"]), "t0": 0,
                                "dims": [1.0, 2.0], "id": wl.randint(0, 9999)}
                prog.append({"op": "optical", "img": name, "path": wl.choice(["o/p", "q"]) + (".png" if dt == "uint8" and wl.random() < 0.6 else ".tif"),
                             "chain": wl.random() < 0.5})
            elif kind == "corr_save":
                p = wl.choice(cpaths)
                prog.append({"op": "corr_save", "corr": wl.choice(sorted(corrs)), "path": p, "use_first": wl.random() < 0.5})
                csaved.append(p)
            else:
                prog.append({"op": "corr_read", "path": wl.choice(csaved) if csaved else cpaths[0]})
        if len(corrs) >= 2 and cfg.random() < 0.5:
            # the same file name re-used for another correction within one process
            a, b = sorted(corrs)[:2]
            p = wl.choice(cpaths)
            at = wl.randint(0, len(prog))
            prog[at:at] = [{"op": "corr_save", "corr": a, "path": p, "use_first": wl.random() < 0.5}, {"op": "corr_read", "path": p},
                           {"op": "corr_save", "corr": b, "path": p, "use_first": wl.random() < 0.5}, {"op": "corr_read", "path": p}]
        restarts = sorted(set(cfg.sample(range(1, len(prog)), k=min(cfg.choice([0, 0, 1, 1, 2]), max(0, len(prog) - 1))))) if len(prog) > 1 else []
        faults = []
        if cfg.random() < 0.45:
            for _ in range(fl.randint(1, 3)):
                st = fl.randint(0, len(prog) - 1)
                site = fl.choice(["open", "write", "write", "write", "close", "flush", "read", "mkdir"])
                occ = fl.randint(0, 25) if site == "write" else fl.randint(0, 3)
                faults.append({"step": st, "site": site, "occurrence": occ, "errno": fl.choice(sorted(ERRNOS) + ["INTERRUPT"])})
        return {"engine": self.name, "seed": seed, "images": images, "corrections": corrs, "program": prog,
                "restarts": restarts, "faults": faults, "magick": cfg.choice(["absent", "absent", "present"])}

    # ------------------------------------------------------------------ execution
    def execute(self, case: dict) -> Outcome:
        out = Outcome()
        out.event(seed=case.get("seed"))
        base = os.environ.get("DSIM_SCRATCH") or tempfile.gettempdir()
        root = tempfile.mkdtemp(prefix=f"dsim-c18-{os.getpid()}-", dir=base)
        try:
            cuts = [0] + list(case.get("restarts", [])) + [len(case["program"])]
            model: dict = {}
            after_restart = False
            for a, b in zip(cuts[:-1], cuts[1:]):
                steps = []
                for i in range(a, b):
                    op = dict(case["program"][i])
                    op["_after_restart"] = after_restart
                    steps.append((i, op))
                if not steps:
                    continue
                events, model, viol, counters = kernel.in_fork(run_segment, case, steps, model, root, case.get("magick", "absent"),
                                                               timeout=self.run_timeout_s)
                for e in events:
                    out.events.append({**e, "seq": len(out.events)})
                out.violations.extend(viol)
                out.counters.update(counters)
                if b < len(case["program"]):
                    out.counters["fault:restart"] += 1
                after_restart = True
            # non-triviality
            seq = [op["op"] for op in case["program"]]
            acked = {}
            for e in out.events[1:]:
                op = case["program"][e["step"]]
                if e["op"] in ("save", "corr_save") and e.get("ack"):
                    acked[norm_path(op["path"])] = e["step"]
                if e["op"] in ("read", "corr_read") and e.get("state") == "ack":
                    what = case["images"][op["img"]] if False else None
                    src = case["program"][acked.get(norm_path(op["path"]), e["step"])]
                    if src["op"] == "save":
                        s = case["images"][src["img"]]
                        sig = f"{s.get('cls')}/{len(s['shape'])}d/{s['dtype']}/T{int(bool(s.get('series')))}/C{len(s.get('chan', []))}/{s.get('time')}"
                    else:
                        sig = "corr:" + case["corrections"][src["corr"]]["kind"]
                    fp = ",".join(sorted({f["site"] for f in case.get("faults", [])}))
                    rp = sum(1 for r in case.get("restarts", []) if acked.get(norm_path(op["path"]), 0) < r <= e["step"])
                    out.nontrivial.add(f"{sig}|{'>'.join(seq[max(0, e['step'] - 3):e['step'] + 1])}|{fp}|R{rp}")
        finally:
            shutil.rmtree(root, ignore_errors=True)
        return out

    # ------------------------------------------------------------------ shrinking
    def shrink_candidates(self, case):
        n = len(case["program"])
        for j in range(n):
            if n <= 1:
                break
            k = copy.deepcopy(case)
            del k["program"][j]
            k["restarts"] = sorted({r - (1 if r > j else 0) for r in k.get("restarts", []) if 0 < r - (1 if r > j else 0) < n - 1})
            nf = []
            for f in k.get("faults", []):
                if f["step"] == j:
                    continue
                if f["step"] > j:
                    f["step"] -= 1
                nf.append(f)
            k["faults"] = nf
            yield k
        for key in ("faults", "restarts"):
            for j in range(len(case.get(key, []))):
                k = copy.deepcopy(case)
                del k[key][j]
                yield k
        used_i = {op["img"] for op in case["program"] if "img" in op}
        used_c = {op["corr"] for op in case["program"] if "corr" in op}
        for name in list(case["images"]):
            if name not in used_i:
                k = copy.deepcopy(case)
                del k["images"][name]
                yield k
        for name in list(case["corrections"]):
            if name not in used_c:
                k = copy.deepcopy(case)
                del k["corrections"][name]
                yield k
        for name, spec in case["images"].items():
            for fld in ("series", "origin", "name", "chan"):
                if spec.get(fld) not in (None, 0, []) and not (fld == "chan" and spec.get("cls") == "OpticalImage"):
                    k = copy.deepcopy(case)
                    k["images"][name].pop(fld)
                    yield k
            if spec.get("time") != "none":
                k = copy.deepcopy(case)
                k["images"][name]["time"] = "none"
                yield k
