"""C03 engine: shared, caching Geometry objects driven by interleaved client programs.

System under simulation: 1-2 geometry objects (all five classes, 1-3-D, scalar / array /
Image weights) shared by 1-3 logical clients that issue integrate / linearity / normalize
calls at changing data resolutions; between steps the environment (global RNGs,
tracemalloc) is perturbed and the conservative resize inside ``integrate`` can be made to
fail.  Oracles after every step: C03.H history independence (fresh clone), C03.V reference
weighted voxel sum, C03.L linearity, C03.N normalisation, C03.X exception agreement with
the reference model; at the end C03.P schedule-permutation invariance.
"""

from __future__ import annotations

import copy
import itertools
import random
import tracemalloc

import cv2
import numpy as np

import darsia
import darsia.measure.integration as integ_mod
from dsim.kernel import Engine, HarnessError, Outcome, substream

CLASSES = ["Geometry", "WeightedGeometry", "ExtrudedGeometry", "PorousGeometry", "ExtrudedPorousGeometry"]


# ----------------------------------------------------------------------------- data from ids
def _weight_array(wid: int, shape, dtype: str = "float64") -> np.ndarray:
    a = np.random.default_rng(10_000 + wid).uniform(0.25, 1.75, size=tuple(shape))
    if dtype == "float64":
        return a
    if dtype in ("float32", "float16"):
        return a.astype(dtype)  # e.g. a depth or porosity map read from a float32 file
    return (np.round(a * 100) + 30).astype(dtype)  # integer maps (depth in mm): 55..205, products wrap in uint8


def _base_field(fid: int, base, tail, positive: bool, scale: float = 1.0) -> np.ndarray:
    g = np.random.default_rng(20_000 + fid)
    lo = 0.5 if positive else -1.0
    # multiples of 1/64: exactly representable in float32 too; 'scale' is a power of two times that
    return scale * np.round(g.uniform(lo, 2.0, size=tuple(base) + tuple(tail)) * 64) / 64


def _repeat(field: np.ndarray, mult) -> np.ndarray:
    out = field
    for ax, m in enumerate(mult):
        out = np.repeat(out, m, axis=ax)
    return np.ascontiguousarray(out)


def _tail(payload: dict) -> tuple:
    k = payload["kind"]
    if k == "scalar":
        return ()
    if k == "vector":
        return (payload["n"],)
    if k == "series":
        return (payload["t"],)
    if k == "series-vector":
        return (payload["t"], payload["n"])
    raise HarnessError(f"unknown payload {payload}")


def res_class(mult, r) -> str:
    per = []
    for m, ri in zip(mult, r):
        if m == ri:
            per.append("n")
        elif ri % m == 0:
            per.append("c")
        elif m % ri == 0:
            per.append("f")
        else:
            per.append("x")
    if "x" in per:
        return "nonint"
    s = set(per)
    if s == {"n"}:
        return "native"
    if s <= {"n", "c"}:
        return "coarser"
    if s <= {"n", "f"}:
        return "finer"
    return "mixed"


# ----------------------------------------------------------------------------- objects
def _native(spec):
    return [b * r for b, r in zip(spec["base"], spec["r"])]


def _wval(w, spec, as_image_ok=True):
    nat = _native(spec)
    if w["kind"] == "scalar":
        return float(w["val"])
    arr = _weight_array(w["id"], nat, w.get("dtype", "float64"))
    if w["kind"] == "array":
        return arr
    if w["kind"] == "image":
        return darsia.Image(arr, space_dim=spec["space_dim"], scalar=True,
                            dimensions=[float(n) * v for n, v in zip(nat, spec["voxel_size"])])
    raise HarnessError(f"unknown weight kind {w}")


def build_geometry(spec: dict):
    nat = _native(spec)
    nv = tuple(nat) + tuple(spec.get("nv_extra", ()))  # e.g. the full shape of a space-time / vector array: only the
    kw = {"space_dim": spec["space_dim"], "num_voxels": nv if spec.get("nv_tuple", True) else list(nv)}  # first entries count
    if spec["size_by"] == "dimensions":
        kw["dimensions"] = [float(n) * v for n, v in zip(nat, spec["voxel_size"])]
    else:
        kw["voxel_size"] = [float(v) for v in spec["voxel_size"]]
    if spec.get("int_sizes"):
        # pixel or millimetre units given as Python ints
        for key in ("dimensions", "voxel_size"):
            if key in kw:
                kw[key] = [int(v) for v in kw[key]]
    if spec.get("size_np"):
        # sizes read from a file header: numpy scalars of that header's dtype (the values are exactly representable)
        for key in ("dimensions", "voxel_size"):
            if key in kw:
                kw[key] = [np.dtype(spec["size_np"]).type(v) for v in kw[key]]
    cls = spec["cls"]
    if cls == "Geometry":
        return darsia.Geometry(**kw)
    if cls == "WeightedGeometry":
        return darsia.WeightedGeometry(weight=_wval(spec["weight"], spec), **kw)
    if cls == "ExtrudedGeometry":
        return darsia.ExtrudedGeometry(expansion=_wval(spec["weight"], spec), **kw)
    if cls == "PorousGeometry":
        return darsia.PorousGeometry(porosity=_wval(spec["weight"], spec), **kw)
    if cls == "ExtrudedPorousGeometry":
        return darsia.ExtrudedPorousGeometry(porosity=_wval(spec["weight"], spec),
                                             depth=_wval(spec["depth"], spec), **kw)
    raise HarnessError(f"unknown class {cls}")


def volume_kind(spec) -> str:
    ws = []
    if spec["cls"] != "Geometry":
        ws.append(spec["weight"])
    if spec["cls"] == "ExtrudedPorousGeometry":
        ws.append(spec["depth"])
    return "array" if any(w["kind"] != "scalar" for w in ws) else "scalar"


def ref_volume_native(spec) -> np.ndarray:
    """Reference effective voxel volume at native resolution, from first principles."""
    nat = _native(spec)
    vol = np.full(tuple(nat), float(np.prod([float(v) for v in spec["voxel_size"]])))
    if spec["size_by"] == "dimensions":
        dims = [float(n) * v for n, v in zip(nat, spec["voxel_size"])]
        vol = np.full(tuple(nat), float(np.prod([d / n for d, n in zip(dims, nat)])))
    for key in ("weight", "depth"):
        if key in spec and (key == "weight" and spec["cls"] != "Geometry"
                            or key == "depth" and spec["cls"] == "ExtrudedPorousGeometry"):
            w = spec[key]
            vol = vol * (float(w["val"]) if w["kind"] == "scalar" else _weight_array(w["id"], nat, w.get("dtype", "float64")).astype(np.float64))
    return vol


def ref_base_volume(spec) -> np.ndarray:
    """Block sums of the native volume over the base (coarsest) grid."""
    vol = ref_volume_native(spec)
    for ax, (b, r) in enumerate(zip(spec["base"], spec["r"])):
        shp = list(vol.shape)
        shp[ax:ax + 1] = [b, r]
        vol = vol.reshape(shp).sum(axis=ax + 1)
    return vol


def ref_integral(spec, field_base: np.ndarray) -> np.ndarray:
    vb = ref_base_volume(spec)
    d = spec["space_dim"]
    f = field_base.astype(np.float64)
    return np.tensordot(vb, f, axes=(list(range(d)), list(range(d))))


def make_data(spec, op, fid, positive=False, mult=None, form=None):
    mult = mult if mult is not None else op["m"]
    payload = op.get("payload", {"kind": "scalar"})
    dt = op.get("dtype", "float64")
    fb = _base_field(fid, spec["base"], _tail(payload), positive, float(op.get("scale", 1.0)) if dt != "int64" else 1.0)
    if dt == "int64":
        fb = np.round(fb * 64)  # integer-valued field (not scaled: it would round to zero)
    if dt in ("float16", "float32"):
        fb = fb.astype(dt).astype(np.float64)  # the reference integrates the values the data really carry
    if op.get("nan"):
        fb = fb.copy()
        fb.ravel()[0] = np.nan if op["nan"] == "nan" else np.inf
    arr = _repeat(fb, mult).astype(dt if not op.get("nan") or dt != "int64" else "float64")
    lay = op.get("layout")
    if lay == "fortran":
        arr = np.asfortranarray(arr)
    elif lay == "strided":
        big = np.zeros(tuple(2 * n for n in arr.shape), dtype=arr.dtype)
        big[tuple(slice(None, None, 2) for _ in arr.shape)] = arr
        arr = big[tuple(slice(None, None, 2) for _ in arr.shape)]  # non-contiguous view
    elif lay == "readonly":
        arr.setflags(write=False)
    form = form or op.get("form", "array")
    if form == "array":
        return fb, arr
    series = payload["kind"] in ("series", "series-vector")
    scalar = payload["kind"] in ("scalar", "series")
    kw = dict(space_dim=spec["space_dim"], scalar=scalar, series=series,
              dimensions=[float(b * r) * v for b, r, v in zip(spec["base"], spec["r"], spec["voxel_size"])])
    # the physical size recorded in the Image is the caller's business: integration is defined by the geometry
    if op.get("img_dims") == "unit":
        kw.pop("dimensions")
    elif op.get("img_dims") == "other":
        kw["dimensions"] = [3.0 * d for d in kw["dimensions"]]
    if series:
        kw["time"] = [float(i) for i in range(payload["t"])]
    return fb, darsia.Image(arr, **kw)


def kept_image(store, name, spec, op, fid, mult):
    """A caller-owned Image object that lives across calls: the first use creates it, later uses with other content
    write the new pixel values INTO the same object (what a caller re-using a buffer does)."""
    fb, img = make_data(spec, op, fid, positive=True, mult=mult, form="image")
    cur = store.get(name)
    if cur is None or cur.img.shape != img.img.shape or cur.img.dtype != img.img.dtype:
        store[name] = img
    else:
        cur.img[...] = img.img
    return fb, store[name]


# ----------------------------------------------------------------------------- seams
class _Cv2Proxy:
    """Pass-through proxy for the ``cv2`` name inside darsia.measure.integration."""

    def __init__(self, real):
        self._real = real
        self.plan = {}       # occurrence index -> exception name
        self.count = 0
        self.fired = []
        self.enabled = True

    def __getattr__(self, name):
        return getattr(self._real, name)

    def resize(self, *a, **k):
        if not self.enabled:
            return self._real.resize(*a, **k)
        i = self.count
        self.count += 1
        if i in self.plan:
            self.fired.append((i, self.plan[i]))
            exc = self.plan[i]
            if exc == "cv2.error":
                raise self._real.error("injected: resize failed")
            if exc == "MemoryError":
                raise MemoryError("injected: resize failed")
            raise KeyboardInterrupt("injected: resize interrupted")
        return self._real.resize(*a, **k)


def _close(a, b, tol_abs) -> bool:
    a = np.asarray(a, dtype=np.float64)
    b = np.asarray(b, dtype=np.float64)
    if a.shape != b.shape:
        return False
    fa, fb = np.isfinite(a), np.isfinite(b)
    if not np.array_equal(fa, fb):
        return False
    if not np.array_equal(a[~fa], b[~fb], equal_nan=True):  # same inf / nan pattern
        return False
    if not np.isfinite(tol_abs):
        return True
    return bool(np.all(np.abs(a[fa] - b[fb]) <= tol_abs))


class C03Engine(Engine):
    prop = "C03"
    name = "c03_geometry"
    level = "exploration"
    quick_runs = 24000
    quick_budget_s = 120.0
    thorough_budget_s = 1500.0
    chunk = 200
    run_timeout_s = 60.0
    rule = ("One run = 1-2 shared geometry objects (5 classes, 1-3-D, scalar/array/Image weights), 1-3 clients with "
            "programs of 1-5 ops (integrate / lin / normalize / bad-resolution / non-integer-ratio) interleaved by a "
            "seeded scheduler, env perturbations and resize faults between/inside steps. A state is non-trivial when a "
            "step follows a step of a DIFFERENT resolution class on the SAME object; distinct = distinct "
            "(class, volume kind scalar/array, space_dim, payload kind, sequence of resolution classes seen by that "
            "object up to the checked step) tuples.")
    components_real = ["darsia.measure.integration (all Geometry classes)", "darsia.image.arithmetics.weight",
                       "darsia.Image", "cv2.resize (OpenCV)", "numpy"]
    components_stub = ["name 'cv2' inside darsia.measure.integration -> pass-through proxy that can raise at the n-th resize",
                       "global RNG / tracemalloc perturbations applied between steps (environment plan)"]
    assumptions = ["clients interleave at call granularity (library is synchronous; no intra-call pre-emption)",
                   "seam names trusted: darsia.measure.integration.cv2, Geometry.integrate/normalize",
                   "C03.V (integer factors per axis, all paths) at 1e-11 relative, "
                   "history oracle C03.H at 1e-12 relative (same code both sides)"]

    def fixed_cases(self, tier):
        cases = super().fixed_cases(tier)
        # sizes that random small inputs never reach: millions of voxels, float32 series (accumulation in low precision)
        # refinement factors for which OpenCV's nearest-source index is off by one (49, 98, 103, ...)
        for fac in (49, 98, 103):
            cases.append({"engine": self.name, "seed": -2, "objects": {"g0": {"cls": "ExtrudedGeometry", "space_dim": 2, "base": [2, 1],
                          "r": [1, 1], "voxel_size": [1.0, 1.0], "size_by": "dimensions", "weight": {"kind": "array", "id": 7}}},
                          "clients": {"c0": [{"op": "integrate", "obj": "g0", "m": [fac, fac], "field": 3, "payload": {"kind": "scalar"},
                                              "form": "array", "dtype": "float64"}]},
                          "schedule": ["c0"], "faults": [], "env": []})
        for cls, payload in (("Geometry", {"kind": "series", "t": 2}), ("ExtrudedGeometry", {"kind": "vector", "n": 2})):
            obj = {"cls": cls, "space_dim": 2, "base": [3, 4], "r": [150, 150], "voxel_size": [0.01, 0.02], "size_by": "dimensions"}
            if cls != "Geometry":
                obj["weight"] = {"kind": "scalar", "val": 0.5}
            cases.append({"engine": self.name, "seed": -1, "objects": {"g0": obj},
                          "clients": {"c0": [{"op": "integrate", "obj": "g0", "m": [150, 150], "field": 5, "payload": payload,
                                              "form": "array", "dtype": "float32"},
                                             {"op": "integrate", "obj": "g0", "m": [750, 750], "field": 5, "payload": payload,
                                              "form": "image", "dtype": "float32"}]},
                          "schedule": ["c0", "c0"], "faults": [], "env": []})
        return cases

    def check_seams(self):
        for n in ("Geometry", "WeightedGeometry", "ExtrudedGeometry", "PorousGeometry", "ExtrudedPorousGeometry"):
            if not hasattr(darsia, n):
                raise HarnessError(f"seam missing: darsia.{n}")
        if not hasattr(integ_mod, "cv2"):
            raise HarnessError("seam missing: darsia.measure.integration.cv2")

    # ------------------------------------------------------------------ generation
    def _gen_object(self, rng: random.Random) -> dict:
        d = rng.choice([1, 2, 2, 2, 3])
        base = [rng.randint(1, 3) for _ in range(d)]
        r = [rng.choice([1, 2, 2, 3, 4]) for _ in range(d)]
        if d == 3:
            base = [min(b, 2) for b in base]
            r = [min(x, 3) for x in r]
        cls = rng.choice(CLASSES)
        spec = {"cls": cls, "space_dim": d, "base": base, "r": r,
                "voxel_size": [rng.choice([0.125, 0.25, 0.5, 1.0, 2.0, 0.1, 0.3, 1.7]) for _ in range(d)]
                if rng.random() < 0.8 else [rng.choice([5e-4, 1e-3, 2e-3, 1e3]) for _ in range(d)],
                "size_by": rng.choice(["dimensions", "voxel_size"])}

        def w():
            k = rng.choice(["scalar", "array", "array"])
            if k == "scalar":
                return {"kind": "scalar", "val": rng.choice([0.2, 0.5, 1.0, 3.0])}
            out = {"kind": "array", "id": rng.randint(0, 999)}
            if rng.random() < 0.3:
                out["dtype"] = rng.choice(["float32", "float32", "uint8", "int64", "uint16", "float16"])
            return out
        if rng.random() < 0.12:
            spec["voxel_size"] = [float(rng.choice([1, 1, 2, 3])) for _ in range(d)]
            spec["int_sizes"] = True
            if rng.random() < 0.3:
                spec["voxel_size"] = [float(rng.choice([3_000_000, 2_500_000])) for _ in range(d)]  # nanometres: the product leaves int64 in 3-D
                spec["size_by"] = "voxel_size"
        elif rng.random() < 0.1:
            spec["voxel_size"] = [float(np.float32(v)) for v in spec["voxel_size"]]
            spec["size_np"] = rng.choice(["float32", "float32", "float16", "int32"])
            if spec["size_np"] in ("float16", "int32"):
                spec["voxel_size"] = [float(rng.choice([1, 2, 3] if spec["size_np"] == "float16" else [60000, 70000])) for _ in range(d)]
            spec["size_by"] = "voxel_size"
        if rng.random() < 0.15:
            spec["nv_extra"] = [rng.randint(2, 4) for _ in range(rng.randint(1, 2))]
        if rng.random() < 0.3:
            spec["nv_tuple"] = False
        if cls != "Geometry":
            spec["weight"] = w()
        if cls == "ExtrudedPorousGeometry":
            spec["depth"] = w()
            for key in ("weight", "depth"):
                if spec[key]["kind"] == "array" and rng.random() < 0.4:
                    spec[key]["kind"] = "image"
        return spec

    def _gen_mult(self, rng, spec, want: str):
        r = spec["r"]
        d = spec["space_dim"]
        if want == "native":
            return list(r)
        for _ in range(20):
            m = []
            for ri in r:
                divs = [k for k in range(1, ri + 1) if ri % k == 0]
                if want == "coarser":
                    m.append(rng.choice(divs))
                elif want == "finer":
                    m.append(ri * rng.choice([1, 2, 3]))
                elif want == "mixed":
                    m.append(rng.choice(divs + [ri * 2]))
                else:  # nonint
                    m.append(rng.choice([k for k in range(1, 2 * ri + 2)]))
            if res_class(m, r) == want:
                return m
        return list(r)

    def _gen_payload(self, rng):
        k = rng.choice(["scalar", "scalar", "scalar", "vector", "series", "series-vector"])
        if k == "scalar":
            return {"kind": "scalar"}
        if k == "vector":
            return {"kind": "vector", "n": rng.randint(1, 3)}
        if k == "series":
            return {"kind": "series", "t": rng.randint(1, 3)}
        return {"kind": "series-vector", "t": rng.randint(1, 3), "n": rng.randint(1, 3)}

    def _gen_op(self, rng, objects: dict) -> dict:
        oid = rng.choice(sorted(objects))
        spec = objects[oid]
        kind = rng.choices(["integrate", "lin", "normalize"], [7, 2, 2])[0]
        want = rng.choices(["native", "coarser", "finer", "mixed", "nonint"], [4, 4, 3, 1, 1])[0]
        op = {"op": kind, "obj": oid, "m": self._gen_mult(rng, spec, want)}
        if rng.random() < 0.25:
            op["scale"] = rng.choice([2.0 ** -20, 2.0 ** -10, 2.0 ** 10])  # very small / large data magnitudes
        if rng.random() < 0.3:
            op["img_dims"] = rng.choice(["unit", "other"])
        if kind == "integrate":
            op.update(field=rng.randint(0, 9999), payload=self._gen_payload(rng),
                      form=rng.choice(["array", "image"]), dtype=rng.choice(["float64", "float64", "float32", "int64", "float16"]))
            if rng.random() < 0.15:
                op["layout"] = rng.choice(["fortran", "strided", "readonly"])
            if rng.random() < 0.04:
                op["nan"] = rng.choice(["nan", "inf"])
        elif kind == "lin":
            op.update(x=rng.randint(0, 9999), y=rng.randint(0, 9999), a=rng.choice([2.0, -0.5, 3.25]),
                      b=rng.choice([1.0, 0.75, -2.0]), payload=self._gen_payload(rng), form="array")
        else:
            op.update(img=rng.randint(0, 9999), ref=rng.randint(0, 9999), dtype=rng.choice(["float64", "float64", "float32", "int64"]),
                      m_ref=self._gen_mult(rng, spec, rng.choice(["native", "coarser", "finer"])),
                      payload=rng.choice([{"kind": "scalar"}, {"kind": "scalar"}, {"kind": "series", "t": rng.randint(1, 3)}]))
            if rng.random() < 0.5:
                op["ref_keep"] = "refbuf-" + oid  # the caller re-uses one reference Image object (buffer) per geometry
                op["m_ref"] = list(spec["r"])
                op["payload"] = {"kind": "scalar"}
        return op

    def generate(self, seed: int, tier: str) -> dict:
        cfg = substream(seed, "config")
        wl = substream(seed, "workload")
        sch = substream(seed, "schedule")
        fl = substream(seed, "faults")
        env = substream(seed, "env")
        nobj = cfg.choice([1, 1, 2])
        objects = {f"g{i}": self._gen_object(cfg) for i in range(nobj)}
        ncl = cfg.choice([1, 1, 2, 3])
        clients = {}
        for c in range(ncl):
            n = wl.randint(1, 5 if ncl == 1 else 3) + (wl.randint(0, 3) if tier == "thorough" else 0)
            clients[f"c{c}"] = [self._gen_op(wl, objects) for _ in range(n)]
        order = [c for c, p in clients.items() for _ in p]
        sch.shuffle(order)
        faults = []
        if cfg.random() < 0.35:
            for _ in range(fl.randint(1, 2)):
                faults.append({"site": "integration.cv2.resize", "occurrence": fl.randint(0, 5),
                               "exc": fl.choice(["cv2.error", "MemoryError", "KeyboardInterrupt"])})
        envp = []
        if cfg.random() < 0.5:
            for _ in range(env.randint(1, 3)):
                envp.append({"before_step": env.randint(0, max(0, len(order) - 1)),
                             "kind": env.choice(["rng-skew", "tracemalloc-flip", "cv-rng"]),
                             "value": env.randint(0, 2**31 - 1)})
        return {"engine": self.name, "seed": seed, "objects": objects, "clients": clients,
                "schedule": order, "faults": faults, "env": envp}

    # ------------------------------------------------------------------ execution
    def _do_op(self, geom, spec, op, store=None):
        """Execute one op on ``geom``; returns (value, reference or None, aux dict)."""
        kind = op["op"]
        aux = {}
        store = {} if store is None else store
        if kind == "integrate":
            fb, data = make_data(spec, op, op["field"])
            val = geom.integrate(data)
            return val, fb, aux
        if kind == "lin":
            fx, x = make_data(spec, op, op["x"])
            fy, y = make_data(spec, op, op["y"])
            z = op["a"] * x + op["b"] * y
            # magnitude of the operands (cancellation in a*x+b*y must not shrink the tolerance scale)
            aux["scale_fb"] = abs(op["a"]) * np.abs(fx) + abs(op["b"]) * np.abs(fy)
            ix, iy, iz = geom.integrate(x), geom.integrate(y), geom.integrate(z)
            aux["lin"] = (ix, iy, iz)
            return iz, op["a"] * fx + op["b"] * fy, aux
        if kind == "normalize":
            fi, img = make_data(spec, op, op["img"], positive=True, form="image")
            if op.get("ref_keep"):
                fr, ref = kept_image(store, op["ref_keep"], spec, op, op["ref"], op["m_ref"])
            else:
                fr, ref = make_data(spec, op, op["ref"], positive=True, mult=op["m_ref"], form="image")
            out = geom.normalize(img, ref)
            i_out = geom.integrate(out)
            i_ref = geom.integrate(ref)
            aux["norm"] = (i_out, i_ref)
            return i_out, fr, aux
        raise HarnessError(f"unknown op {kind}")

    def _ref_rejects(self, spec, op, mults) -> bool:
        """Documented rejection: array volume, data at another resolution, space_dim != 2."""
        if volume_kind(spec) != "array" or spec["space_dim"] == 2:
            return False
        return any(list(m) != list(spec["r"]) for m in mults)

    def _run_schedule(self, case, schedule, out: Outcome | None, record=True):
        objects = {k: build_geometry(s) for k, s in case["objects"].items()}
        store: dict = {}  # caller-owned data objects that live across calls
        pcs = {c: 0 for c in case["clients"]}
        results = {c: [] for c in case["clients"]}
        hist = {k: [] for k in objects}
        proxy = _Cv2Proxy(cv2)
        for f in case.get("faults", []):
            proxy.plan[f["occurrence"]] = f["exc"]
        integ_mod.cv2 = proxy
        tm_started_by_us = False
        try:
            for step, c in enumerate(schedule):
                op = case["clients"][c][pcs[c]]
                pcs[c] += 1
                spec = case["objects"][op["obj"]]
                geom = objects[op["obj"]]
                for e in case.get("env", []):
                    if e["before_step"] == step:
                        if e["kind"] == "rng-skew":
                            np.random.seed(e["value"] % 2**32)
                            random.seed(e["value"])
                        elif e["kind"] == "cv-rng":
                            cv2.setRNGSeed(e["value"] % 2**31)
                        elif e["kind"] == "tracemalloc-flip":
                            if tracemalloc.is_tracing():
                                tracemalloc.stop()
                                tm_started_by_us = False
                            else:
                                tracemalloc.start()
                                tm_started_by_us = True
                        if out is not None:
                            out.counters["fault:env-" + e["kind"]] += 1
                nf = len(proxy.fired)
                proxy.enabled = True
                try:
                    val, fb, aux = self._do_op(geom, spec, op, store)
                    exc = None
                except (Exception, KeyboardInterrupt) as e:
                    val, fb, aux, exc = None, None, {}, type(e).__name__
                finally:
                    proxy.enabled = False
                fired = proxy.fired[nf:]
                results[c].append((None if val is None else np.array(val, dtype=np.float64), exc, bool(fired)))
                if out is None:
                    continue
                # -------- bookkeeping
                mults = [op["m"]] + ([op["m_ref"]] if "m_ref" in op else [])
                cls_now = res_class(op["m"], spec["r"])
                pk = op.get("payload", {"kind": "scalar"})["kind"]
                vk = volume_kind(spec)
                out.counters["op:" + op["op"]] += 1
                out.counters["probe:volume-" + vk] += 1
                out.counters["probe:res-" + cls_now] += 1
                for _, e in fired:
                    out.counters["fault:resize-" + e] += 1
                prev = hist[op["obj"]]
                if prev and any(p != cls_now for p in prev):
                    out.nontrivial.add(f"{spec['cls']}/{vk}/{spec['space_dim']}d/{pk}/{'>'.join(prev[-4:])}>{cls_now}")
                    if cls_now == "native":
                        out.counters["probe:return-to-native"] += 1
                rz = lambda k: "native" if k == "native" else "resized"  # noqa: E731
                trans = f"after-{rz(prev[-1])}" if prev else "first"
                hist[op["obj"]].append(cls_now)
                out.event(client=c, op=op["op"], obj=op["obj"], res=cls_now, value=val, exc=exc,
                          faults=[list(f) for f in fired])
                pc = "scalar-data" if pk == "scalar" else "multi-data"
                culprit = f"{vk}-volume:{pc}:{rz(cls_now)}"
                # -------- oracles
                if fired:
                    # a faulted step promises nothing about its own value; the object must stay usable (H on later steps)
                    out.counters["probe:step-faulted"] += 1
                    continue
                rejects = self._ref_rejects(spec, op, mults)
                if exc is not None:
                    if rejects and exc == "ValueError":
                        out.counters["probe:documented-rejection"] += 1
                    else:
                        out.violate("C03.X", culprit, step, exception=exc, op=op, object=spec,
                                    note="call raised although the reference model defines its value")
                    # history oracle still applies: a fresh object must raise too
                # H: fresh clone asked only this question
                fresh = build_geometry(spec)
                try:
                    fval, _, _ = self._do_op(fresh, spec, op, store)
                    fexc = None
                except Exception as e:
                    fval, fexc = None, type(e).__name__
                if (exc is None) != (fexc is None):
                    out.violate("C03.H", f"{culprit}:{trans}", step, got=val, got_exc=exc, fresh=fval, fresh_exc=fexc)
                    continue
                if exc is not None:
                    out.counters[f"probe:both-raised({op['op']}:{exc})"] += 1  # a call that claims nothing: watch the share
                    continue
                sfb = np.where(np.isfinite(fb), aux.get("scale_fb", np.abs(fb)), 0.0) if "scale_fb" not in aux else aux["scale_fb"]
                scale = float(np.sum(np.abs(ref_integral(spec, sfb)))) + 1e-300
                if not _close(val, fval, 1e-12 * scale):
                    out.violate("C03.H", f"{culprit}:{trans}", step, got=val, fresh=fval, history=prev[-4:], op=op,
                                object=spec)
                    continue
                # V: reference value (integer factors per axis only)
                # The value oracle covers integer refinement / coarsening factors per axis, including 'mixed' (finer
                # along one axis, coarser along another; the library resizes axis by axis since D21).  Non-integer
                # ratios only perturb the cache.
                classes = [res_class(m, spec["r"]) for m in mults]
                if all(k in ("native", "coarser", "finer", "mixed") for k in classes):
                    ref = ref_integral(spec, fb)
                    resized = vk == "array" and any(list(m) != list(spec["r"]) for m in mults)
                    # low-precision data are integrated in double precision (D26): no allowance for float16 / float32
                    # integer factors are resized with exact numpy block operations (D21, D22, D33): no allowance for
                    # OpenCV's single-precision area kernel either
                    # ... but any summation order is a valid implementation of 'the sum': allow the double-precision
                    # accumulation bound n*eps for n summed voxels (matters for the million-voxel cases only, §8.19)
                    nvox = max(int(np.prod([m_ * b_ for m_, b_ in zip(m, spec["base"])])) for m in mults)
                    tol = max(1e-11, 8.0 * nvox * np.finfo(float).eps) * scale
                    if op["op"] == "normalize":
                        # the rescaled image keeps the dtype of the input image: float32 pixels carry 6e-8 relative error
                        tol = max(tol, (1e-5 if op.get("dtype") == "float32" else 1e-9) * scale)
                    if not _close(val, ref, tol):
                        out.violate("C03.V", culprit, step, got=val, reference=ref, op=op, object=spec)
                        continue
                    out.counters["probe:value-checked"] += 1
                if "lin" in aux:
                    ix, iy, iz = aux["lin"]
                    if not _close(iz, op["a"] * np.asarray(ix) + op["b"] * np.asarray(iy), 1e-9 * scale + 1e-300):
                        out.violate("C03.L", culprit, step, ix=ix, iy=iy, iz=iz, op=op)
                if "norm" in aux:
                    i_out, i_ref = aux["norm"]
                    if not _close(i_out, i_ref, (1e-5 if op.get("dtype") == "float32" else 1e-9) * float(np.sum(np.abs(i_ref))) + 1e-300):
                        out.violate("C03.N", culprit, step, normalised=i_out, reference=i_ref, op=op)
        finally:
            integ_mod.cv2 = cv2
            if tm_started_by_us and tracemalloc.is_tracing():
                tracemalloc.stop()
        return results

    def execute(self, case: dict) -> Outcome:
        out = Outcome()
        out.event(seed=case.get("seed"))
        res = self._run_schedule(case, case["schedule"], out)
        # P: schedule permutation invariance (fault-free, env-free runs with >= 2 clients only; with a
        # resize fault plan the fault would hit a different client and legally change who fails)
        if len(case["clients"]) >= 2 and not case.get("faults") and not out.violations:
            perm = sorted(case["schedule"])  # client-by-client order: a different interleaving
            if perm != case["schedule"]:
                res2 = self._run_schedule({**case, "env": []}, perm, None)
                out.counters["probe:permutation-checked"] += 1
                for c in res:
                    for i, (a, b) in enumerate(zip(res[c], res2[c])):
                        va, ea, _ = a
                        vb, eb, _ = b
                        same = ea == eb and (va is None) == (vb is None) and (
                            va is None or _close(va, vb, 1e-12 * (float(np.max(np.abs(va))) + 1e-300)))
                        if not same:
                            op = case["clients"][c][i]
                            spec = case["objects"][op["obj"]]
                            out.violate("C03.P", f"{volume_kind(spec)}-volume", len(case["schedule"]),
                                        client=c, index=i, interleaved=va, sequential=vb)
        return out

    # ------------------------------------------------------------------ shrinking
    def shrink_candidates(self, case):
        used = {op["obj"] for p in case["clients"].values() for op in p}
        if set(case["objects"]) - used:
            yield self._gc(copy.deepcopy(case))
        # drop a whole client
        for c in list(case["clients"]):
            if len(case["clients"]) > 1:
                k = copy.deepcopy(case)
                del k["clients"][c]
                k["schedule"] = [x for x in k["schedule"] if x != c]
                yield self._gc(k)
        # drop one op of one client
        for c, prog in case["clients"].items():
            for j in range(len(prog)):
                if sum(len(p) for p in case["clients"].values()) <= 1:
                    break
                k = copy.deepcopy(case)
                del k["clients"][c][j]
                idx = [i for i, x in enumerate(k["schedule"]) if x == c]
                del k["schedule"][idx[j]]
                if not k["clients"][c]:
                    del k["clients"][c]
                yield self._gc(k)
        for key in ("faults", "env"):
            for j in range(len(case.get(key, []))):
                k = copy.deepcopy(case)
                del k[key][j]
                yield k
        # simplify ops
        for c, prog in case["clients"].items():
            for j, op in enumerate(prog):
                for fld in ("scale", "img_dims", "ref_keep", "layout", "nan"):
                    if fld in op:
                        k = copy.deepcopy(case)
                        k["clients"][c][j].pop(fld)
                        yield k
                for field, val in (("payload", {"kind": "scalar"}), ("form", "array"), ("dtype", "float64"),
                                   ("field", 0), ("x", 0), ("y", 1), ("img", 0), ("ref", 1)):
                    if field in op and op[field] != val:
                        k = copy.deepcopy(case)
                        k["clients"][c][j][field] = val
                        yield k
                if op["op"] != "integrate":
                    k = copy.deepcopy(case)
                    k["clients"][c][j] = {"op": "integrate", "obj": op["obj"], "m": op["m"], "field": 0,
                                          "payload": op.get("payload", {"kind": "scalar"}), "form": "array",
                                          "dtype": "float64"}
                    yield k
        # simplify objects
        for oid, spec in case["objects"].items():
            for field, val in (("voxel_size", [1.0] * spec["space_dim"]), ("size_by", "voxel_size"),
                               ("base", [1] * spec["space_dim"])):
                if spec[field] != val:
                    k = copy.deepcopy(case)
                    k["objects"][oid][field] = val
                    yield k
            for key in ("weight", "depth"):
                if key in spec and spec[key]["kind"] == "image":
                    k = copy.deepcopy(case)
                    k["objects"][oid][key]["kind"] = "array"
                    yield k
            if spec["cls"] not in ("Geometry", "WeightedGeometry"):
                k = copy.deepcopy(case)
                k["objects"][oid]["cls"] = "WeightedGeometry"
                k["objects"][oid].pop("depth", None)
                yield k

    @staticmethod
    def _gc(case):
        used = {op["obj"] for p in case["clients"].values() for op in p}
        case["objects"] = {k: v for k, v in case["objects"].items() if k in used}
        n = len(case["schedule"])
        case["env"] = [e for e in case.get("env", []) if e["before_step"] < n]
        return case
