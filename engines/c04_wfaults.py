"""C04 engine: Wasserstein solvers under injected failures of the inner linear solve.

For each sampled configuration the engine performs a fault-free run, counts the inner
linear solves n, and then enumerates every fault point (solve index k = 1..n-1) x site
(entry of linear_solve / back-end solve / solver set-up), one fault per run, plus the
truncated fault-free references (num_iter = k-1).  Every *returned* result is held to the
oracles M (mass balance), D (distance = cost of returned flux), A (auxiliary outputs), S
(status), V (last valid iterate), T (bounded number of solves).
"""

from __future__ import annotations

import copy
import os
import warnings

import numpy as np
import scipy.sparse as sps

import darsia
import darsia.measure.wasserstein as wmod
from dsim.kernel import Engine, HarnessError, Outcome, substream
from dsim.reffv import RefFV

EXC_TYPES = ["RuntimeError", "ValueError", "LinAlgError", "MemoryError", "FloatingPointError",
             "ZeroDivisionError", "NotImplementedError", "ArithmeticError"]
SITES = ["entry", "backend", "setup", "post", "bookkeeping"]
L1 = {"raviart_thomas": "RAVIART_THOMAS", "constant_subcell_projection": "CONSTANT_SUBCELL_PROJECTION",
      "constant_cell_projection": "CONSTANT_CELL_PROJECTION"}
MOB = ["CELL_BASED", "CELL_BASED_ARITHMETIC", "CELL_BASED_HARMONIC", "SUBCELL_BASED", "FACE_BASED"]


def make_exc(name: str) -> Exception:
    if name == "RuntimeError":
        return RuntimeError("Factor is exactly singular (injected)")
    if name == "LinAlgError":
        return np.linalg.LinAlgError("injected: singular matrix")
    if name == "KeyboardInterrupt":
        return KeyboardInterrupt("injected")
    return {"ValueError": ValueError, "MemoryError": MemoryError, "FloatingPointError": FloatingPointError,
            "ZeroDivisionError": ZeroDivisionError, "NotImplementedError": NotImplementedError,
            "ArithmeticError": ArithmeticError}[name]("injected inner-solve failure")


# ----------------------------------------------------------------------------- seams
class SimClock:
    """Replaces the ``time`` module inside darsia.measure.wasserstein."""

    def __init__(self, jumps=()):
        self.now = 1000.0
        self.calls = 0
        self.jumps = dict(jumps)  # call index -> delta (may be negative)
        self.presented = 0.0
        self.backward = 0

    def time(self):
        i = self.calls
        self.calls += 1
        d = 0.001
        if i in self.jumps:
            d = self.jumps[i]
            if d < 0:
                self.backward += 1
        self.now += d
        self.presented += abs(d)
        return self.now


class TraceStub:
    def start(self, *a):
        pass

    def stop(self):
        pass

    def is_tracing(self):
        return False

    def get_traced_memory(self):
        return (0, 0)


class _SolverProxy:
    def __init__(self, real, seam):
        self._real = real
        self._seam = seam

    def __getattr__(self, name):
        return getattr(self._real, name)

    def solve(self, b, *a, **kw):
        seam = self._seam
        seam.maybe_raise("backend")
        x = self._real.solve(b, *a, **kw)
        seam.record_residual(x, b)
        seam.maybe_raise("post")  # the back-end solve completed; the failure hits before linear_solve returns
        return x


class _PyamgFaultProxy:
    """Module-level stand-in for `pyamg` inside darsia.measure.wasserstein: the multigrid set-up the library requests
    fails INSIDE the third-party call (site 'pyamg'), i.e. below any handling the library's own set-up routine may have."""

    def __init__(self, real, seam):
        self._real, self._seam = real, seam

    def __getattr__(self, n):
        return getattr(self._real, n)

    def smoothed_aggregation_solver(self, *a, **k):
        self._seam.maybe_raise("pyamg")
        return self._real.smoothed_aggregation_solver(*a, **k)


class SolveSeam:
    """Instance-level wrappers around the inner linear solve of one distance object."""

    def __init__(self, obj, fault=None):
        self.obj = obj
        self.fault = fault  # {"site":..., "occurrence": k, "exc": name} or None
        self.entries = 0
        self.current = -1
        self.fired = []
        self.residuals = []  # (entry index, |Ax-b|_inf)
        self.rel_residuals = []  # |Ax-b|_inf / |b|_inf
        self.rel2_residuals = []  # |Ax-b|_2 / |b|_2: the quantity pyamg and scipy's cg compare with their tolerance
        self.abs2_residuals = []  # (|Ax-b|_2, |b|_2)
        self.weight_spread = 1.0
        self.max_b = 0.0
        self.setups = 0
        self.reused = 0
        self.amplitude = 0.0
        self.traj = []  # per linear_solve entry: [|rhs|_2, copy of previous_solution or None, copy of the returned vector or None]
        self._matrix_full = None
        for n in ("linear_solve", "setup_direct_solver", "setup_amg_solver", "setup_cg_solver", "_solve"):
            if not hasattr(obj, n):
                raise HarnessError(f"seam missing: {type(obj).__name__}.{n}")
        orig_ls = obj.linear_solve
        seam = self

        def linear_solve(matrix, rhs, previous_solution=None, reuse_solver=False):
            seam.current = seam.entries
            seam.entries += 1
            seam._matrix_full = matrix
            seam.note_amplitude(matrix, rhs, previous_solution)
            seam.note_conditioning(matrix)
            try:
                rec = [float(np.linalg.norm(np.asarray(rhs, dtype=float), 2)),
                       None if previous_solution is None else np.array(previous_solution, dtype=float, copy=True), None]
            except Exception:
                rec = [float("nan"), None, None]
            seam.traj.append(rec)
            seam.maybe_raise("entry")
            if reuse_solver and hasattr(obj, "linear_solver"):
                seam.reused += 1
            ret = orig_ls(matrix, rhs, previous_solution, reuse_solver)
            try:
                rec[2] = np.array(ret[0], dtype=float, copy=True)
            except Exception:
                pass
            return ret
        obj.linear_solve = linear_solve

        for nm in ("setup_direct_solver", "setup_amg_solver", "setup_cg_solver"):
            orig = getattr(obj, nm)

            def setup(matrix, _orig=orig):
                seam.setups += 1
                seam.maybe_raise("setup")
                _orig(matrix)
                obj.linear_solver = _SolverProxy(obj.linear_solver, seam)
            setattr(obj, nm, setup)

        # late site: the iteration's bookkeeping (after the iterate and the distance were updated) fails
        if hasattr(obj, "_analyze_timings"):
            orig_at = obj._analyze_timings
            self.bookkeeping_calls = 0

            def _analyze_timings(timings):
                f = seam.fault
                if f and f["site"] == "bookkeeping" and not seam.fired:
                    seam.bookkeeping_calls += 1
                    if seam.bookkeeping_calls == f["occurrence"]:
                        seam.fired.append(("bookkeeping", f["occurrence"], f["exc"]))
                        e = make_exc(f["exc"])
                        e._dsim_injected = True
                        raise e
                return orig_at(timings)
            obj._analyze_timings = _analyze_timings
        # site 'anderson': the Anderson mixing step of an iteration fails (between the update of the iterate and the
        # update of the distance) - an inner step in the sense of the statement
        if getattr(obj, "anderson", None) is not None:
            real_aa = obj.anderson
            self.anderson_calls = 0

            class _AA:
                def __getattr__(self_, n):
                    return getattr(real_aa, n)

                def __call__(self_, *a, **k):
                    f = seam.fault
                    if f and f["site"] == "anderson" and not seam.fired:
                        seam.anderson_calls += 1
                        if seam.anderson_calls == f["occurrence"]:
                            seam.fired.append(("anderson", f["occurrence"], f["exc"]))
                            e = make_exc(f["exc"])
                            e._dsim_injected = True
                            raise e
                    return real_aa(*a, **k)
            obj.anderson = _AA()
        orig_solve = obj._solve
        self.captured = None

        def _solve(flat_mass_diff):
            d, sol, info = orig_solve(flat_mass_diff)
            seam.captured = (d, np.array(sol, dtype=float, copy=True), info)
            return d, sol, info
        obj._solve = _solve

    def reset(self, fault):
        """Start observing a new call on the same object."""
        self.fault = fault
        self.entries, self.current = 0, -1
        self.fired, self.residuals, self.rel_residuals = [], [], []
        self.rel2_residuals = []
        self.abs2_residuals = []
        self.weight_spread = 1.0
        self.max_b = 0.0
        self.setups = self.reused = 0
        self.bookkeeping_calls = 0
        self.anderson_calls = 0
        self.amplitude = 0.0
        self.traj = []
        self.captured = None

    def note_amplitude(self, matrix, rhs, previous_solution):
        """Largest magnitude that enters the flux recovery u = J^-1 (rhs_u + D^T p) of this call.  The mass
        balance can only hold to eps times this magnitude ('linear-solver precision'), e.g. after an
        Anderson step blew the iterate up."""
        try:
            nf = self.obj.grid.num_faces
            d = np.abs(matrix.diagonal()[:nf])
            with np.errstate(all="ignore"):
                amp = np.abs(np.asarray(rhs)[:nf]) / np.where(d > 0, d, 1.0)
            amp = amp[np.isfinite(amp)]
            a = float(amp.max()) if amp.size else 0.0
            if previous_solution is not None and nf:
                ps = np.abs(np.asarray(previous_solution)[:nf])
                ps = ps[np.isfinite(ps)]
                a = max(a, float(ps.max()) if ps.size else 0.0)
            self.amplitude = max(self.amplitude, a)
        except Exception:
            pass

    def note_conditioning(self, matrix):
        """Spread of the face weights (diagonal of the flux block) of the systems of this call: the library's absolute
        regularisation puts weights of 1/eps on faces of flux-free cells."""
        try:
            nf = self.obj.grid.num_faces
            d = np.abs(matrix.diagonal()[:nf])
            d = d[np.isfinite(d) & (d > 0)]
            if d.size:
                self.weight_spread = max(getattr(self, "weight_spread", 1.0), float(d.max() / d.min()))
        except Exception:
            pass

    def maybe_raise(self, site):
        f = self.fault
        if f and f["site"] == site and f["occurrence"] == self.current and not self.fired:
            self.fired.append((site, self.current, f["exc"]))
            e = make_exc(f["exc"])
            e._dsim_injected = True
            raise e

    def record_residual(self, x, b):
        obj = self.obj
        try:
            A = (obj.fully_reduced_matrix if obj.formulation == "pressure" else
                 obj.reduced_matrix if obj.formulation == "flux_reduced" else self._matrix_full)
            r = float(np.max(np.abs(A @ x - b))) if np.all(np.isfinite(x)) else float("inf")
            nb = float(np.max(np.abs(b)))
            self.rel_residuals.append(r / nb if nb > 0 else (0.0 if r == 0 else float("inf")))
            n2 = float(np.linalg.norm(b))
            r2 = float(np.linalg.norm(A @ x - b)) if np.all(np.isfinite(x)) else 0.0
            self.rel2_residuals.append(r2 / n2 if n2 > 0 else 0.0)
            self.abs2_residuals.append((r2, n2))
            self.max_b = max(self.max_b, nb)
        except Exception:
            r = float("nan")
        self.residuals.append((self.current, r))


# ----------------------------------------------------------------------------- configuration -> objects
def mass_pair(cfg):
    shape = tuple(cfg["shape"])
    g = np.random.default_rng(30_000 + cfg["pair"]["id"])
    kind = cfg["pair"]["kind"]
    n = int(np.prod(shape))
    if kind == "explicit":
        # literal masses (regression cases taken from reports); must have equal sums
        return (np.array(cfg["pair"]["a"], dtype=float).reshape(shape), np.array(cfg["pair"]["b"], dtype=float).reshape(shape))
    if kind == "dense":
        a = g.uniform(0.2, 1.0, size=shape)
        b = g.uniform(0.2, 1.0, size=shape)
    elif kind == "dense01":
        # values all over [0, 1] (two decimals): mass differences of either sign and of the size of the masses
        a = np.round(g.uniform(0.0, 1.0, size=shape), 2)
        b = np.round(g.uniform(0.0, 1.0, size=shape), 2)
        sc = float(cfg["pair"].get("scale", 1.0))
        return sc * a, sc * b * (a.sum() / b.sum())  # equal mass by proportion (to round-off), no single adjusted cell
    elif kind == "compact":
        a = np.zeros(n)
        b = np.zeros(n)
        k = max(1, n // 4)
        a[g.choice(n, size=k, replace=False)] = g.uniform(0.5, 1.0, size=k)
        b[g.choice(n, size=k, replace=False)] = g.uniform(0.5, 1.0, size=k)
        a, b = a.reshape(shape), b.reshape(shape)
    elif kind == "blocks":
        # two axis-aligned blocks of constant density (the shape of the library's own examples); Newton runs on
        # these go on for tens of iterations instead of ending early on a singular mobility
        def block():
            m = np.zeros(shape)
            sl = []
            for s_ in shape:
                w_ = int(g.integers(1, max(2, s_ // 3 + 1)))
                lo = int(g.integers(0, s_ - w_ + 1))
                sl.append(slice(lo, lo + w_))
            m[tuple(sl)] = 1.0
            return m / m.sum()
        a, b = block(), block()
    else:  # single cell to single cell
        a = np.zeros(n)
        b = np.zeros(n)
        i, j = g.choice(n, size=2, replace=n < 2)
        a[i] = 1.0
        b[j] = 1.0
        a, b = a.reshape(shape), b.reshape(shape)
    # equal mass, on dyadic rationals so that the sums agree exactly
    sc = float(cfg["pair"].get("scale", 1.0))
    a = sc * np.round(a * 1024) / 1024
    b = sc * np.round(b * 1024) / 1024
    diff = a.sum() - b.sum()
    idx = np.unravel_index(int(np.argmax(b + (b > 0))), shape)
    b[idx] += diff
    if b[idx] < 0:
        a[idx] -= b[idx]
        b[idx] = 0.0
    return a, b


def weight_array(cfg):
    w = cfg.get("weight")
    if not w:
        return None
    shape = tuple(cfg["shape"])
    if w["kind"] == "const":
        return np.full(shape, float(w["val"]))
    a = np.random.default_rng(40_000 + w["id"]).uniform(0.5, 2.0, size=shape)
    if w.get("dtype") in ("uint8", "int16"):
        a = np.round(a * 12.0) + 10.0  # integer-valued maps 16..34: their squares leave uint8
    elif w.get("dtype") in ("float32", "float16"):
        a = a.astype(w["dtype"]).astype(float)  # exactly representable in the narrow type
    return a


def make_image(arr, cfg):
    dims = [float(s) * float(v) for s, v in zip(cfg["shape"], cfg["voxel_size"])]
    return darsia.Image(np.array(arr, dtype=float), space_dim=len(cfg["shape"]), scalar=True, dimensions=dims)


def make_options(cfg, num_iter=None, form="info"):
    o = {
        "l1_mode": getattr(wmod.L1Mode, L1[cfg["l1_mode"]]),
        "mobility_mode": getattr(wmod.MobilityMode, cfg["mobility_mode"]),
        "formulation": cfg["formulation"],
        "linear_solver": cfg["linear_solver"],
        "num_iter": cfg["num_iter"] if num_iter is None else num_iter,
        "aa_depth": cfg.get("aa_depth", 0),
        "aa_restart": cfg.get("aa_restart"),
    }
    if form == "info":
        o["return_info"] = True
    elif form == "status":
        o["return_status"] = True
    if cfg.get("verbose"):
        o["verbose"] = True
    for k in ("tol_residual", "tol_increment", "tol_distance", "L", "L_init", "regularization"):
        if cfg.get(k) is not None:
            o[k] = cfg[k]
    if cfg["linear_solver"] in ("amg", "cg"):
        if cfg.get("amg_options") is not None:
            o["amg_options"] = dict(cfg["amg_options"])       # verbatim user options
        elif not cfg.get("amg_default"):
            o["amg_options"] = {"max_coarse": cfg.get("max_coarse", 4)}
        o["linear_solver_options"] = dict(cfg.get("ls_options", {}))
    if cfg["method"] == "bregman-adaptive":
        u = int(cfg.get("update_every", 2))
        o["bregman_update"] = lambda it, _u=u: it % _u == 0
    return o


def build(cfg, num_iter=None, form="info"):
    # voxel sizes as Python floats, or - 'voxel_int' - as Python ints (pixel units, nanometres)
    grid = darsia.Grid(tuple(cfg["shape"]), [int(v) if (cfg.get("voxel_int") and float(v).is_integer() and v >= 1) else float(v)
                                              for v in cfg["voxel_size"]])
    w = weight_array(cfg)
    wimg = None if w is None else make_image(w, cfg)
    if wimg is not None and (cfg.get("weight") or {}).get("dtype"):
        # the weight map in the dtype it was stored in (an 8-bit label-derived map, a float32 file); same values
        wimg = darsia.Image(np.asarray(w).astype(cfg["weight"]["dtype"]), space_dim=len(cfg["shape"]), scalar=True,
                            dimensions=[float(s_) * float(v_) for s_, v_ in zip(cfg["shape"], cfg["voxel_size"])])
    opts = make_options(cfg, num_iter, form)
    cls = wmod.WassersteinDistanceNewton if cfg["method"] == "newton" else wmod.WassersteinDistanceBregman
    return cls(grid, wimg, opts)


def make_ref(cfg) -> RefFV:
    # independent Gauss-Legendre rule (numpy) with the library's number of points per direction: the library's own
    # tables were wrong in 2-D and 3-D (D37) and had been taken over as 'trusted base' for a while (DESIGN 8.4)
    return RefFV(cfg["shape"], cfg["voxel_size"])


class RunResult:
    __slots__ = ("ret", "exc", "seam", "obj", "warned", "clock", "exc_injected", "exc_site")


def _raise_site(e) -> str:
    """Where in the library's _solve the exception left the iteration: 'final-pressure-solve' if the raising statement
    of Bregman's _solve lies behind the comment that opens the pressure recovery (which is outside the loop's handler)."""
    try:
        import inspect
        tb = e.__traceback__
        site = "other"
        while tb is not None:
            co = tb.tb_frame.f_code
            if co.co_name == "_solve" and co.co_filename.endswith("wasserstein.py"):
                src, first = inspect.getsourcelines(co)
                marks = [first + k for k, line in enumerate(src) if "Solve for the pressure by solving a single Newton iteration" in line]
                if marks and tb.tb_lineno > marks[0]:
                    site = "final-pressure-solve"
            tb = tb.tb_next
        return site
    except Exception:
        return "other"


def run_solver(cfg, fault=None, num_iter=None, form="info", env=None) -> RunResult:
    env = env or {}
    rr = RunResult()
    clock = SimClock(env.get("clock_jumps", ()))
    old_time, old_tm = wmod.time, wmod.tracemalloc
    old_pyamg = None
    wmod.time = clock
    if env.get("tracemalloc", "stub") == "stub":
        wmod.tracemalloc = TraceStub()
    # RNG seam: pyamg's set-up reads numpy's global RNG; the simulator always decides its state
    np.random.seed(env.get("np_seed", 20221012) % 2**32)
    try:
        try:
            obj = build(cfg, num_iter, form)
        except Exception as e:  # a documented configuration the constructor rejects: no result either
            rr.ret, rr.exc, rr.exc_injected, rr.warned = None, f"ctor:{type(e).__name__}", False, False
            rr.seam = rr.obj = None
            rr.clock = clock
            return rr
        seam = SolveSeam(obj, None)
        if not hasattr(wmod, "pyamg"):
            raise HarnessError("seam missing: darsia.measure.wasserstein.pyamg")
        old_pyamg = wmod.pyamg
        wmod.pyamg = _PyamgFaultProxy(old_pyamg, seam)
        import contextlib
        import io as _io
        with contextlib.redirect_stdout(_io.StringIO()):
            if cfg.get("warm"):
                # history on the SAME object: an earlier, fault-free distance computation for another pair
                wa, wb = mass_pair({**cfg, "pair": cfg["warm"]})
                if cfg["warm"].get("interrupt") is not None:
                    # ... which was interrupted (KeyboardInterrupt escapes every handler) at its k-th inner solve
                    seam.reset({"site": "entry", "occurrence": cfg["warm"]["interrupt"], "exc": "KeyboardInterrupt"})
                with warnings.catch_warnings():
                    warnings.simplefilter("ignore")
                    try:
                        obj(make_image(wa, cfg), make_image(wb, cfg))
                    except (Exception, KeyboardInterrupt):
                        pass
            seam.reset(fault)
            a, b = mass_pair(cfg)
            with warnings.catch_warnings(record=True) as wl:
                warnings.simplefilter("always")
                try:
                    rr.ret = obj(make_image(a, cfg), make_image(b, cfg))
                    rr.exc = None
                except Exception as e:  # a call that raises returns no result
                    rr.ret = None
                    rr.exc = f"{type(e).__name__}"
                    rr.exc_injected = bool(getattr(e, "_dsim_injected", False))
                    rr.exc_site = _raise_site(e)
        rr.warned = any("abruptly stopped" in str(w.message) for w in wl)
        rr.seam, rr.obj, rr.clock = seam, obj, clock
        return rr
    finally:
        wmod.time, wmod.tracemalloc = old_time, old_tm
        if old_pyamg is not None:
            wmod.pyamg = old_pyamg
        import tracemalloc as _t
        if _t.is_tracing():
            _t.stop()


# ----------------------------------------------------------------------------- oracles
def _relclose(a, b, rel, scale):
    a = np.asarray(a, dtype=float)
    b = np.asarray(b, dtype=float)
    if a.shape != b.shape:
        return False
    return bool(np.all(np.abs(a - b) <= rel * scale))


def iterative_tol(cfg) -> float:
    if cfg["linear_solver"] == "direct":
        return 0.0
    o = cfg.get("ls_options", {})
    return max(float(o.get("atol", 1e-6 if cfg["linear_solver"] == "amg" else 0.0)),
               float(o.get("rtol", 1e-6) or 1e-6))


def check_result(cfg, rr: RunResult, out: Outcome, tag: str, step: int, fault=None):
    """Oracles M, D, A, S, T on one returned result. Returns a dict of observed values."""
    seam, obj = rr.seam, rr.obj
    dist, info = rr.ret
    _, sol, _ = seam.captured
    ref = make_ref(cfg)
    nf, nc = ref.num_faces, ref.num_cells
    u, p = sol[:nf], sol[nf:nf + nc]
    a, b = mass_pair(cfg)
    w = weight_array(cfg)
    culprit_cfg = f"{cfg['method']}:{cfg['formulation']}:{cfg['linear_solver']}"
    fired = bool(seam.fired)
    site = seam.fired[0][0] if fired else "none"
    kidx = seam.fired[0][1] if fired else -1
    where = ("failure@init" if kidx == 0 else "failure@iter0" if kidx == 1 else "failure@iter>=1") if fired else "no-failure"
    hist = info["convergence_history"]
    completed = len(hist["distance"])
    organic = (not fired) and rr.warned
    if organic:
        where = "failure@iter0" if completed == 0 else "failure@iter>=1"
        out.counters["probe:organic-inner-failure"] += 1
    finite = bool(np.all(np.isfinite(sol)) and np.isfinite(dist))
    obs = {"distance": float(dist), "flux": u.copy(), "completed": completed, "finite": finite}

    if not finite:
        out.counters["probe:non-finite-result"] += 1
        if info["converged"]:
            out.violate("C04.S", "converged-with-non-finite-result", step, tag=tag, config=cfg)
        else:
            # C04.N: a NaN / inf flux or distance is no iterate at all - neither a mass-conserving flux nor 'the last
            # valid iterate' of a run whose inner step failed
            mob = cfg["mobility_mode"] if cfg["mobility_mode"] in ("SUBCELL_BASED", "FACE_BASED") else "cell-based"
            out.violate("C04.N", f"non-finite-result:{where}:{cfg['method'].split('-')[0]}:{mob}", step, tag=tag, config=cfg)
        return obs

    # ---- M: mass balance to linear-solver precision
    rhs = ref.cell_volume * (b - a).ravel(order="F")
    imb = float(np.max(np.abs(ref.outflow(u) - rhs)))
    # An iterative back-end that was GIVEN at most five iterations (swarm knob 'solve-stall') and returned with a
    # relative residual above 1e-3 has no precision to speak of: the statement bounds the mass balance by the linear
    # solver's precision, so nothing is claimed about it (distance/flux consistency and status still are).
    stalled = (cfg["linear_solver"] != "direct" and cfg.get("ls_options", {}).get("maxiter", 100) <= 5
               and any(rr_ > 1e-3 for rr_ in seam.rel_residuals if rr_ == rr_))
    if stalled:
        out.counters["probe:linear-solver-stalled-unconverged"] += 1
    if cfg["linear_solver"] != "direct" and cfg.get("ls_options", {}).get("maxiter", 100) > 5 and seam.rel_residuals:
        fin = [x for x in seam.rel_residuals if x == x and x != float("inf")]
        if fin:
            key = "max_abs_linear_residual_over_tol_times_largest_rhs(%s)" % cfg["linear_solver"]
            ra = max([r for _, r in seam.residuals if r == r and r != float("inf")] + [0.0])
            out.extra[key] = max(out.extra.get(key, 0.0), ra / (max(iterative_tol(cfg), 1e-300) * max(seam.max_b, 1e-300)))
    rmax = max([r for _, r in seam.residuals if r == r] + [0.0])
    if cfg["linear_solver"] == "direct":
        # the precision of a direct solve is round-off: a large measured residual (e.g. a stale factorisation
        # applied to another matrix) is a defect and must not widen the tolerance
        rmax = min(rmax, 1e-10 * (float(np.max(np.abs(rhs))) + 1e-300))
    scale_m = float(np.max(np.abs(rhs))) + float(np.max(np.abs(u)) if nf else 0.0) * max(ref.face_area) + 1e-300
    tol_m = 1e-9 * scale_m + 50.0 * nc * rmax + float(os.environ.get("C04_AMP", "0")) * seam.amplitude * max(ref.face_area) * max(1, ref.dim)
    if seam.amplitude * max(ref.face_area) > 1e3 * scale_m:
        out.counters["probe:iterate-blow-up(anderson)"] += 1
    out.extra["max_imbalance_over_scale"] = max(out.extra.get("max_imbalance_over_scale", 0.0), imb / scale_m)
    coarse = (cfg["linear_solver"] != "direct"
              and any(x == x and x > 1e-6 for x in seam.rel_residuals))
    if coarse and not stalled:
        # the configured precision of the iterative back-end (e.g. an absolute tolerance next to SI-sized right-hand
        # sides) left a relative residual above 1e-6: 'linear-solver precision' is too coarse for a claim (DESIGN 8.20)
        out.counters["probe:iterative-precision-coarse-relative-to-rhs"] += 1
    if imb > tol_m and not stalled and not coarse:
        # K3: direct solves of systems whose face weights spread over more than 12 orders of magnitude (1/eps weights
        # from the absolute regularisation) leave residuals far above round-off; the imbalance is that residual
        full_r = max([r for _, r in seam.residuals if r == r] + [0.0])
        k3 = (cfg["linear_solver"] == "direct" and getattr(seam, "weight_spread", 1.0) >= 1e12
              and imb <= 1e-9 * scale_m + 50.0 * nc * full_r)
        out.violate("C04.M", f"{cfg['formulation']}:{cfg['linear_solver']}:{where}" + (":ill-conditioned-by-regularization" if k3 else ""), step, tag=tag, imbalance=imb, tolerance=tol_m,
                    recorded_linear_residual=rmax, weight_spread=getattr(seam, "weight_spread", None), fault=fault, config=cfg)

    # ---- D: distance is the cost of exactly the returned flux
    own = float(obj.l1_dissipation(u))
    refcost = ref.cost(u, w, cfg["l1_mode"])
    sc = abs(refcost) + abs(own) + 1e-300
    if not (abs(dist - own) <= 1e-12 * sc and abs(dist - refcost) <= 1e-9 * sc):
        out.violate("C04.D", f"{where}", step, tag=tag, distance=dist, cost_of_returned_flux=refcost,
                    library_cost_of_returned_flux=own, fault=fault, config=cfg)

    # ---- A: auxiliary outputs derive from the same solution
    bad = []
    cf = ref.cell_flux(u)
    fs = float(np.max(np.abs(cf))) + 1e-300
    if not _relclose(info["flux"], cf, 1e-12, fs):
        bad.append("flux")
    dens = ref.density(u, w, cfg["l1_mode"])
    if not _relclose(info["transport_density"], dens, 1e-9, float(np.max(np.abs(dens))) + 1e-300):
        bad.append("transport_density")
    wf = cf if w is None else cf * w[..., None]
    if not _relclose(info["weighted_flux"], wf, 1e-12, float(np.max(np.abs(wf))) + 1e-300):
        bad.append("weighted_flux")
    if not np.array_equal(np.asarray(info["mass_diff"]), b - a):
        bad.append("mass_diff")
    if not np.array_equal(np.asarray(info["pressure"]), p.reshape(ref.shape, order="F")):
        bad.append("pressure")
    ps = float(np.max(np.abs(p))) + 1e-300
    # the reference cell is the centre cell of the grid (documented; the reference model computes its flat index in the
    # grid's own column-major numbering, independently of the library's attribute)
    pin = abs(float(p[ref.center_cell_flat()]))
    if pin > 1e-8 * ps + 1e-12 + 10 * rmax and not stalled and not coarse:
        bad.append("pressure-not-pinned")
    for name in bad:
        out.violate("C04.A", f"{name}", step, tag=tag, fault=fault, config=cfg)

    # ---- S: status
    conv = bool(info["converged"])
    reasons = []
    if conv:
        if fired or organic:
            reasons.append("inner-step-failed")
        if completed and not criteria_met(cfg, hist, dist):
            reasons.append("criteria-not-met")
    # an iterative inner solve that returned far from its own convergence criterion (iteration limit hit) is an inner step
    # that failed; the library neither notices nor flags it (K6)
    tol_own = iterative_tol(cfg)
    o_ = cfg.get("ls_options", {})
    unconv = []
    for r2, b2 in getattr(seam, "abs2_residuals", []):
        if cfg["linear_solver"] == "amg":      # pyamg: |r| < tol * |b| (tol = the 'atol' option, default 1e-6)
            lim = float(o_.get("atol", 1e-6)) * (b2 if b2 > 0 else 1.0)
        elif cfg["linear_solver"] == "cg":     # scipy: |r| <= max(rtol * |b|, atol)
            lim = max(float(o_.get("rtol", 1e-6) or 1e-6) * b2, float(o_.get("atol", 0.0)))
        else:
            break
        if r2 == r2 and r2 > 100.0 * lim and b2 > 0:
            unconv.append(r2 / b2)
    if unconv:
        out.counters["probe:inner-iterative-solve-unconverged"] += 1
        if conv and not reasons:
            out.violate("C04.S", f"converged-although:inner-solve-unconverged:{cfg['linear_solver']}", step, tag=tag,
                        worst_relative_residual=max(unconv), solver_tolerance=tol_own, config=cfg)
    if conv and not reasons and completed:
        # the same criteria, evaluated on the trajectory the harness recorded at the linear-solve seam instead of the
        # library's own convergence history
        met, why = trajectory_criteria(cfg, seam, sol, obj, ref, rhs, completed)
        if met is None:
            out.counters["probe:trajectory-not-reconstructible:" + why] += 1
        else:
            out.counters["probe:converged-runs-criteria-recomputed-from-trajectory"] += 1
            if not met:
                reasons.append("criteria-not-met-on-recorded-trajectory:" + why)
    for r in reasons[:1]:
        out.violate("C04.S", f"converged-although:{r}", step, tag=tag, converged=conv,
                    number_iterations=info["number_iterations"], completed_iterations=completed, fault=fault,
                    config=cfg)
    obs["converged"] = conv
    # measured, not judged (DESIGN 4, round k): Newton evaluates its residual criterion on the iterate BEFORE the last
    # update; the residual of the iterate that is returned is recomputed here with the library's own residual function
    if conv and cfg["method"] == "newton" and (cfg.get("tol_residual") or 1e300) < 1e299 and hist.get("residual"):
        try:
            rhs_full = np.concatenate([np.zeros(nf), obj.mass_matrix_cells.dot((b - a).ravel(order="F")), np.zeros(1)])
            r_ret = float(np.linalg.norm(obj.residual(rhs_full, sol), 2))
            r0 = float(hist["residual"][0])
            if r0 > 0 and r_ret == r_ret:
                ratio = r_ret / (float(cfg["tol_residual"]) * r0)
                out.extra["max_returned_residual_over_criterion(newton,converged)"] = max(
                    out.extra.get("max_returned_residual_over_criterion(newton,converged)", 0.0), ratio)
                out.counters["probe:newton-converged-runs-residual-recomputed"] += 1
                if ratio > 1.0:
                    out.counters["probe:newton-converged-but-returned-iterate-misses-residual-criterion"] += 1
        except Exception:
            pass

    # ---- T: bounded number of linear solves
    # liveness bound, deliberately generous (the statement names no solve count): no retry loop around a failing solve
    if seam.entries > 3 * cfg["num_iter"] + 6:
        out.violate("C04.T", f"{cfg['method']}", step, tag=tag, solves=seam.entries, num_iter=cfg["num_iter"])
    return obs


def trajectory_criteria(cfg, seam, sol, obj, ref, rhs_cells, completed):
    """Stopping criteria of a run that reported convergence, recomputed from what passed the linear-solve seam (iterates
    handed to / returned by the inner solves and the returned solution), not from info['convergence_history'].
    Returns (True / False / None = cannot reconstruct, detail).  Slack 1e-9 relative: the quantities are the same floating
    point expressions the library evaluates, so an honest run reproduces them to round-off."""
    big = np.finfo(float).max
    tr = cfg.get("tol_residual") if cfg.get("tol_residual") is not None else big
    ti = cfg.get("tol_increment") if cfg.get("tol_increment") is not None else big
    td = cfg.get("tol_distance") if cfg.get("tol_distance") is not None else big
    nf = ref.num_faces
    tj = seam.traj
    slack = 1.0 + 1e-9
    with np.errstate(all="ignore"):
        if completed < 3:
            return False, "fewer-than-three-iterations"
        if cfg["method"] == "newton":
            if len(tj) != completed + 1 or any(t[1] is None for t in tj[1:]):
                return None, "newton-entry-count"
            xs = [t[1] for t in tj[1:]] + [np.asarray(sol, dtype=float)]
            res = [t[0] for t in tj[1:]]
            finc = [float(np.linalg.norm(xs[i + 1][:nf] - xs[i][:nf], 2)) for i in range(completed)]
            d_last = float(obj.l1_dissipation(xs[-1][:nf]))
            d_prev = float(obj.l1_dissipation(xs[-2][:nf]))
            if not res[-1] < np.float64(tr) * res[0] * slack:
                return False, "residual"
            if not finc[-1] < np.float64(ti) * finc[0] * slack:
                return False, "flux-increment"
            if not abs(d_last - d_prev) < np.float64(td) * slack + 1e-300:
                return False, "distance-increment"
            return True, ""
        # Bregman: entry 0 = initial Darcy solve, entries 1..completed = relaxation steps, last entry = pressure recovery
        if len(tj) != completed + 2 or any(t[2] is None for t in tj[:completed + 1]):
            return None, "bregman-entry-count"
        fl_last, fl_prev = tj[completed][2][:nf], tj[completed - 1][2][:nf]
        if not np.array_equal(fl_last, np.asarray(sol, dtype=float)[:nf]):
            return None, "bregman-returned-flux-is-not-last-relaxation-flux"
        d_last, d_prev = float(obj.l1_dissipation(fl_last)), float(obj.l1_dissipation(fl_prev))
        if not abs(d_last - d_prev) / d_last < np.float64(td) * slack:
            return False, "distance-increment"
        mref = float(np.linalg.norm(rhs_cells, 2))
        mres = float(np.linalg.norm(ref.outflow(fl_last) - rhs_cells, 2)) / mref
        if not mres < np.float64(tr) * slack + 1e-12:
            return False, "mass-conservation-residual"
        return True, ""


def criteria_met(cfg, hist, dist) -> bool:
    big = np.finfo(float).max
    tr = cfg.get("tol_residual") if cfg.get("tol_residual") is not None else big
    ti = cfg.get("tol_increment") if cfg.get("tol_increment") is not None else big
    td = cfg.get("tol_distance") if cfg.get("tol_distance") is not None else big
    with np.errstate(all="ignore"):
        if len(hist["distance"]) < 3:  # the solvers force iterations 0 and 1
            return False
        if cfg["method"] == "newton":
            return bool(hist["residual"][-1] < np.float64(tr) * hist["residual"][0]
                        and hist["flux_increment"][-1] < np.float64(ti) * hist["flux_increment"][0]
                        and hist["distance_increment"][-1] < td)
        return bool(hist["aux_force_increment"][-1] < np.float64(ti) * hist["aux_force_increment"][0]
                    and hist["distance_increment"][-1] / hist["distance"][-1] < td
                    and hist["mass_conservation_residual"][-1] < tr)


class C04Engine(Engine):
    prop = "C04"
    name = "c04_wfaults"
    level = "fault_enumeration"
    quick_runs = 480
    quick_budget_s = 150.0
    thorough_budget_s = 1500.0
    chunk = 2
    run_timeout_s = 900.0
    determinism_sample = 4
    isolate_runs = True
    rule = ("One evaluation = one sampled solver configuration (method x formulation x back-end x l1/mobility mode x "
            "Anderson x weights x grid x mass pair x tolerances) with ALL its fault points enumerated: fault-free run, "
            "then one run per (inner linear solve index k=1..n-1) x (site: linear_solve entry, back-end solve, after the back-end solve, solver "
            "set-up), exception type rotating with seed, plus truncated references. Non-trivial and distinct = distinct "
            "(method, formulation, back-end, l1_mode, mobility_mode, AA on/off, weights on/off, site, k, exception type) "
            "tuples whose fault actually fired inside the solver loop and whose call returned a result.")
    components_real = ["darsia.measure.wasserstein (Newton, Bregman, adaptive Bregman)", "darsia.utils.fv/grid/quadrature",
                       "darsia.utils.andersonacceleration", "scipy SuperLU / cg", "pyamg smoothed aggregation", "numpy"]
    components_stub = ["obj.linear_solve / setup_*_solver / linear_solver.solve wrapped per instance (pass-through + fault plan + residual recorder)",
                       "module 'time' in wasserstein -> simulated clock (with backward jumps)",
                       "module 'tracemalloc' in wasserstein -> no-op stub in most runs (real in a sampled subset)"]
    assumptions = ["a 'failure of the inner linear solve' is an exception raised at linear_solve entry, in the back-end solve or in the solver set-up",
                   "reference FV model (dsim/reffv.py) encodes the documented face numbering / orientation and the documented quadrature orders",
                   "mass balance tolerance is 1e-9*scale + 50*ncells*(largest linear residual measured by the back-end proxy in that call)",
                   "seam names trusted: linear_solve, setup_direct_solver, setup_amg_solver, setup_cg_solver, linear_solver, _solve; module attrs time, tracemalloc"]

    def check_seams(self):
        for n in ("WassersteinDistanceNewton", "WassersteinDistanceBregman", "L1Mode", "MobilityMode", "time", "tracemalloc"):
            if not hasattr(wmod, n):
                raise HarnessError(f"seam missing: darsia.measure.wasserstein.{n}")
        for n in ("linear_solve", "setup_direct_solver", "setup_amg_solver", "setup_cg_solver", "_solve", "l1_dissipation"):
            if not hasattr(wmod.VariationalWassersteinDistance, n):
                raise HarnessError(f"seam missing: VariationalWassersteinDistance.{n}")

    # ------------------------------------------------------------------ generation
    def generate(self, seed: int, tier: str) -> dict:
        r = substream(seed, "config")
        i = seed % 1_000_003  # position in batch: stratify the first configurations
        methods = ["newton", "bregman", "bregman-adaptive"]
        method = methods[i % 3] if i < 36 else r.choice(methods)
        formulation = ["pressure", "full"][(i // 3) % 2] if i < 36 else r.choice(["pressure", "pressure", "full", "flux_reduced"])
        if formulation == "full":
            ls = "direct"
        else:
            ls = ["direct", "amg", "cg"][(i // 6) % 3] if i < 36 else r.choice(["direct", "direct", "amg", "cg"])
        big = tier == "thorough"
        dim = r.choice([1, 2, 2, 2, 3])
        if dim == 1:
            shape = [r.randint(2, 12)]
        elif dim == 2:
            shape = [r.randint(1, 7 if big else 5), r.randint(1, 7 if big else 5)]
            if shape[0] * shape[1] < 2:
                shape[r.randint(0, 1)] = 3
        else:
            shape = [r.randint(1, 4 if big else 3) for _ in range(3)]
            if np.prod(shape) < 2:
                shape[r.randint(0, 2)] = 2
        cfg = {
            "method": method, "formulation": formulation, "linear_solver": ls,
            "shape": shape, "voxel_size": [r.choice([0.25, 0.5, 1.0, 1.0, 1.5, 2.0]) for _ in range(dim)]
            if r.random() < 0.85 else ([r.choice([1e-5, 5e-5, 1e-4, 1e-3]) for _ in range(dim)] if r.random() < 0.7
                                       else [r.choice([50.0, 1e3]) for _ in range(dim)]),
            "l1_mode": r.choice(sorted(L1)), "mobility_mode": r.choice(MOB),
            "num_iter": r.randint(1, 10 if big else 7),
            "aa_depth": r.choice([0, 0, 1, 2, 3, 5]), "aa_restart": r.choice([None, None, 2, 3, 4]),
            "pair": {"kind": r.choice(["dense", "dense", "compact", "single"]), "id": r.randint(0, 9999)},
        }
        if r.random() < 0.08:
            # integer voxel sizes: small ones (pixels) or nanometres (the cell volume leaves int64 in 3-D)
            cfg["voxel_int"] = True
            cfg["voxel_size"] = [float(r.choice([1, 2, 3])) for _ in range(dim)] if (dim < 3 or r.random() < 0.5) else \
                [float(r.choice([2_100_000, 3_000_000])) for _ in range(dim)]
        if r.random() < 0.3:
            cfg["pair"]["scale"] = r.choice([8.0, 64.0, 0.125])

        if r.random() < 0.15:
            cfg["verbose"] = True
        if r.random() < 0.3:
            cfg["warm"] = {"kind": r.choice(["dense", "compact"]), "id": r.randint(0, 9999)}
            if r.random() < 0.4:
                cfg["warm"]["interrupt"] = r.randint(1, 4)
        if cfg["aa_depth"] == 0:
            cfg["aa_restart"] = None
        if r.random() < 0.4:
            cfg["weight"] = r.choice([{"kind": "const", "val": r.choice([0.5, 2.0, 3.0])},
                                      {"kind": "array", "id": r.randint(0, 999)}])
            if cfg["weight"]["kind"] == "array" and r.random() < 0.3:
                cfg["weight"]["dtype"] = r.choice(["uint8", "uint8", "float32", "int16", "float16"])
        tol = r.choice(["never", "never", "default", "moderate"])
        if tol == "never":
            cfg.update(tol_residual=1e-300, tol_increment=1e-300, tol_distance=1e-300)
        elif tol == "moderate":
            cfg.update(tol_residual=r.choice([1e-2, 1e-6]), tol_increment=r.choice([1e-1, 1e-4]),
                       tol_distance=r.choice([1e-2, 1e-5]))
        if r.random() < 0.5:
            cfg["L"] = r.choice([0.1, 1.0, 10.0])
        if method == "bregman-adaptive":
            cfg["update_every"] = r.choice([1, 2, 3])
        if ls in ("amg", "cg"):
            cfg["max_coarse"] = r.choice([2, 4, 8])
            cfg["ls_options"] = r.choice([{}, {"atol": 1e-10, "rtol": 1e-10}, {"maxiter": 3},
                                          {"atol": 1e-12, "rtol": 1e-12, "maxiter": 200}])
        if substream(seed, "profile").random() < 0.2:
            # convergence-focused profile: enough iterations for a stopping criterion to become binding, the distance
            # criterion in particular (large distances), printing on or off
            cfg.update(num_iter=r.randint(8, 14), tol_residual=r.choice([1e-2, 1.0, None]),
                       tol_increment=r.choice([1e-1, 1.0, None]), tol_distance=r.choice([1e-2, 1e-3, 1e-4]),
                       verbose=r.random() < 0.5, aa_depth=r.choice([0, 0, 2]), aa_restart=None)
            cfg["pair"] = {"kind": "dense", "id": r.randint(0, 9999), "scale": r.choice([8.0, 64.0])}
            for k in ("tol_residual", "tol_increment"):
                if cfg[k] is None:
                    cfg.pop(k)
        if 36 <= i < 48 or substream(seed, "profile2").random() < 0.03:
            # SI-units profile: a millimetre-sized sample with coordinates in metres (voxel volumes ~1e-9) and a penalty
            # parameter different from its default
            cfg["voxel_size"] = [r.choice([1e-5, 5e-5, 1e-4]) for _ in range(dim)]
            cfg["L"] = r.choice([0.1, 0.5, 2.0, 10.0])
            if method == "bregman-adaptive" and r.random() < 0.5:
                cfg["method"] = "bregman"
                cfg.pop("update_every", None)
        if 48 <= i < 52 or substream(seed, "profile3").random() < 0.02:
            # a grid with more than 100 cells and the library's DEFAULT multigrid options (max_coarse=100 still yields a
            # hierarchy), few nonlinear iterations
            cfg.update(shape=[r.choice([11, 12]), r.choice([10, 11])], voxel_size=[r.choice([0.5, 1.0]), r.choice([1.0, 2.0])],
                       formulation="pressure", linear_solver=r.choice(["amg", "cg"]), amg_default=True, num_iter=r.randint(1, 3),
                       ls_options=r.choice([{}, {"atol": 1e-10, "rtol": 1e-10}]))
            cfg.pop("max_coarse", None)
            cfg.pop("weight", None)
            dim = 2
        long_run = 52 <= i < 58 or substream(seed, "profile4").random() < 0.015
        if long_run:
            # long runs on a larger grid (tens of iterations, direct back-end, dense masses): ill-conditioning that
            # builds up over the iteration (K3) only shows here; three sampled fault points instead of all of them
            p4 = substream(seed, "profile4b")
            cfg.update(shape=[p4.randint(9, 14), p4.randint(9, 14)], voxel_size=[p4.choice([0.05, 0.1, 1.0]), p4.choice([0.05, 0.1, 1.0])],
                       method=p4.choice(["newton", "newton", "bregman"]), linear_solver="direct",
                       formulation=["full", "pressure", "flux_reduced", "full", "full", "pressure"][i - 52] if 52 <= i < 58
                       else p4.choice(["full", "full", "pressure", "flux_reduced"]),
                       l1_mode=p4.choice(sorted(L1)) if not 52 <= i < 58 else ["constant_cell_projection", "constant_cell_projection",
                                                                               "raviart_thomas", "constant_subcell_projection",
                                                                               "constant_cell_projection", "raviart_thomas"][i - 52],
                       mobility_mode=p4.choice(["CELL_BASED", "CELL_BASED", "CELL_BASED_HARMONIC", "CELL_BASED_ARITHMETIC"]),
                       num_iter=p4.randint(25, 40), aa_depth=0, aa_restart=None,
                       tol_residual=1e-300, tol_increment=1e-300, tol_distance=1e-300, long=True)
            cfg["pair"] = {"kind": "dense", "id": p4.randint(0, 9999)}
            for k in ("update_every", "weight", "max_coarse", "ls_options", "warm", "verbose", "L", "amg_default"):
                cfg.pop(k, None)
            dim = 2
        aa_run = 58 <= i < 64 or substream(seed, "profile5").random() < 0.02
        if aa_run and not long_run:
            # Anderson acceleration on (nearly) one-dimensional problems: after about as many iterations as there are
            # faces the stored increments become linearly dependent (D44); every iterate is inspected through a fault
            # right behind it
            p5 = substream(seed, "profile5b")
            n1 = p5.randint(8, 12)
            cfg.update(shape=p5.choice([[n1], [n1], [n1, 1], [1, n1], [p5.randint(3, 5), p5.randint(2, 4)]]),
                       method=p5.choice(["bregman", "bregman", "bregman-adaptive", "newton"]), linear_solver="direct",
                       formulation=p5.choice(["pressure", "pressure", "full", "flux_reduced"]),
                       aa_depth=p5.choice([3, 5, 5, 8]), aa_restart=p5.choice([None, None, 5]), num_iter=p5.randint(9, 14),
                       l1_mode=p5.choice(sorted(L1)), mobility_mode=p5.choice(["CELL_BASED", "CELL_BASED", "CELL_BASED_ARITHMETIC"]),
                       tol_residual=1e-300, tol_increment=1e-300, tol_distance=1e-300)
            if 58 <= i < 64:
                # the six stratified slots stay in the sensitive family: fixed Bregman on ~10 cells in a row, all iterates
                # up to 24 inspected (about one configuration in five has a spoiled iterate on the pre-D44 code)
                j5 = i - 58
                cfg.update(shape=[[10], [9], [11], [12], [10, 1], [1, 10]][j5], method="bregman", num_iter=24,
                           aa_depth=[5, 5, 3, 5, 8, 5][j5], aa_restart=None, formulation=["pressure", "full"][j5 % 2],
                           l1_mode="raviart_thomas", mobility_mode="CELL_BASED")
            cfg["voxel_size"] = [p5.choice([0.5, 1.0, 1.0, 2.0]) for _ in cfg["shape"]]
            cfg["pair"] = {"kind": p5.choice(["dense01", "dense01", "dense"]), "id": p5.randint(0, 9999)}
            if cfg["method"] == "bregman-adaptive":
                cfg["update_every"] = p5.choice([2, 3])
            else:
                cfg.pop("update_every", None)
            for k in ("weight", "max_coarse", "ls_options", "warm", "verbose", "amg_default"):
                cfg.pop(k, None)
            dim = len(cfg["shape"])
        if cfg.get("voxel_int") and max(cfg["voxel_size"]) > 1e5:
            # densities in units of the (nanometre) voxels, so that fluxes stay O(1): with masses of 1e20 Newton's first
            # update cancels seven digits (round-off relative to the right-hand side of its own system, judged inside
            # 'linear-solver precision', DESIGN 4 / 8.22) and would trip the 1e-9 relative tolerance
            cfg["pair"]["scale"] = 2.0 ** -22
        e = substream(seed, "env")
        env = {"tracemalloc": "real" if e.random() < 0.1 else "stub", "np_seed": e.randint(0, 2**31)}
        if e.random() < 0.5:
            env["clock_jumps"] = [[e.randint(0, 60), e.choice([-3600.0, -1.0, 0.0, 86400.0])] for _ in range(e.randint(1, 3))]
        case = {"engine": self.name, "seed": seed, "config": cfg, "faults": "all", "env": env,
                "forms": substream(seed, "workload").random() < 0.35}
        if aa_run and not long_run:
            case["faults"] = [{"site": "bookkeeping", "occurrence": k, "exc": EXC_TYPES[k % len(EXC_TYPES)]}
                              for k in range(1, cfg["num_iter"] + 1)]
            case["forms"] = False
            case.pop("prelude", None)
        if long_run:
            p4 = substream(seed, "profile4c")
            case["faults"] = [{"site": p4.choice(SITES), "occurrence": p4.randint(1, cfg["num_iter"]),
                               "exc": p4.choice(EXC_TYPES)} for _ in range(3)]
            case["forms"] = False
        h = substream(seed, "schedule")
        if h.random() < 0.35:
            # a history: another solver object was built and used on a grid of the same shape earlier in the process
            case["prelude"] = {"voxel_size": [h.choice([0.25, 0.5, 1.0, 2.0, 4.0]) for _ in range(dim)],
                               "method": h.choice(["newton", "bregman"]),
                               "weight": h.choice([None, {"kind": "const", "val": 2.0}])}
        return case

    # ------------------------------------------------------------------ execution
    def execute(self, case: dict) -> Outcome:
        out = self._execute(case)
        cfg = case["config"]
        if cfg["formulation"] == "flux_reduced" and cfg["linear_solver"] in ("amg", "cg"):
            # K4: the flux-reduced system is an indefinite saddle-point system (pressure + Lagrange multiplier); the
            # library hands it to AMG / AMG-preconditioned CG all the same.  One culprit for whatever that produces
            # (NaN results, failing set-ups, exceptions after a handled failure), so that the known finding covers
            # this combination and nothing else.
            for v in out.violations:
                v["culprit"] = "flux_reduced-with-iterative-back-end"
            out.counters["probe:flux-reduced-with-iterative-back-end"] += 1
        return out

    def _execute(self, case: dict) -> Outcome:
        out = Outcome()
        cfg = case["config"]
        env = case.get("env", {})
        out.event(seed=case.get("seed"), config=cfg)
        step = 0
        if case.get("prelude"):
            pre = {**cfg, "voxel_size": case["prelude"]["voxel_size"], "method": case["prelude"]["method"], "num_iter": 2}
            pre.pop("update_every", None)
            if case["prelude"].get("weight"):
                pre["weight"] = case["prelude"]["weight"]
            else:
                pre.pop("weight", None)
            run_solver(pre, None, env=env)
            out.counters["op:prelude-run"] += 1
            out.counters["fault:history-other-solver-same-shape"] += 1
        base = run_solver(cfg, None, env=env)
        out.counters["op:fault-free-run"] += 1
        out.sim_time += base.clock.presented
        out.counters["fault:clock-backward-jump"] += base.clock.backward
        if base.ret is None:
            # C04.X: the statement promises a result for every pair, grid, solver and option of the quantifier (even a
            # failing inner step yields a flagged result); a fault-free call that raises delivers none
            out.counters["probe:no-result(" + str(base.exc) + ")"] += 1
            mob = cfg["mobility_mode"] if cfg["mobility_mode"] in ("SUBCELL_BASED", "FACE_BASED") else "cell-based"
            who = cfg["formulation"] if str(base.exc).startswith("ctor:") else f"{cfg['method'].split('-')[0]}:{mob}"
            if getattr(base, "exc_site", "other") == "final-pressure-solve":
                who = "bregman:final-pressure-solve"  # K5: the pressure recovery behind the loop is not guarded
            out.violate("C04.X", f"fault-free-call-raises:{base.exc}:{who}", step, config=cfg)
            out.event(kind="baseline", exc=base.exc)
            return out
        n = base.seam.entries
        obs0 = check_result(cfg, base, out, "fault-free", step)
        out.event(kind="baseline", n_solves=n, distance=obs0["distance"], converged=obs0.get("converged"),
                  completed=obs0["completed"], setups=base.seam.setups)
        out.counters["probe:solver-reused"] += base.seam.reused
        if base.seam.residuals:
            rm = max(r for _, r in base.seam.residuals)
            if rm > 1e-9:
                out.counters["probe:iterative-backend-inexact"] += 1
        if cfg["method"] != "newton" and obs0["completed"] < cfg["num_iter"] and not base.warned:
            out.counters["probe:early-stop"] += 1
        if cfg["method"] == "newton" and obs0.get("converged"):
            out.counters["probe:newton-converged"] += 1

        # return forms agree
        if case.get("forms"):
            for form in ("status", "plain"):
                rf = run_solver(cfg, None, form=form, env=env)
                out.counters["op:form-run"] += 1
                ok = rf.ret is not None
                if ok and form == "status":
                    ok = (isinstance(rf.ret, tuple) and len(rf.ret) == 2 and float(rf.ret[0]) == obs0["distance"]
                          and bool(rf.ret[1]) == bool(obs0.get("converged")))
                elif ok:
                    ok = float(rf.ret) == obs0["distance"]
                if not ok and obs0["finite"]:
                    out.violate("C04.S", f"return-form-{form}-disagrees", step,
                                info_form=[obs0["distance"], obs0.get("converged")], other=repr(rf.ret), config=cfg)

        # fault points
        if case["faults"] == "all":
            seed = case.get("seed", 0)
            plan = []
            for k in range(1, n):
                for si, site in enumerate(SITES):
                    plan.append({"site": site, "occurrence": k, "exc": EXC_TYPES[(seed + 3 * k + si) % len(EXC_TYPES)]})
                if cfg["linear_solver"] in ("amg", "cg"):
                    # the multigrid set-up of solve k fails inside pyamg (below the library's set-up routine)
                    plan.append({"site": "pyamg", "occurrence": k, "exc": EXC_TYPES[(seed + 3 * k + 6) % len(EXC_TYPES)]})
                if cfg.get("aa_depth"):
                    # the acceleration step of loop iteration k-1 fails (after the iterate was updated): an inner step too
                    plan.append({"site": "anderson", "occurrence": k, "exc": EXC_TYPES[(seed + 3 * k + 5) % len(EXC_TYPES)]})
            if n >= 1:
                plan.append({"site": "entry", "occurrence": 0, "exc": EXC_TYPES[seed % len(EXC_TYPES)]})
        else:
            plan = list(case["faults"])
        trunc_cache = {}
        for f in plan:
            step += 1
            rr = run_solver(cfg, f, env=env)
            out.counters["op:faulted-run"] += 1
            if not rr.seam.fired:
                out.counters["probe:fault-not-reached"] += 1  # e.g. set-up site while the factorisation is reused
                out.event(kind="fault", fault=f, fired=False)
                continue
            out.counters[f"fault:solve-raise-{f['site']}"] += 1
            out.counters[f"fault:exc-{f['exc']}"] += 1
            if rr.ret is None:
                in_loop = f["site"] == "anderson" or 1 <= f["occurrence"] <= (n - 1 if cfg["method"] == "newton" else n - 2)
                if f["site"] == "bookkeeping":
                    # the bookkeeping routine is also called once after the loop, outside the handler: an escape from
                    # there is not an inner step failing; nothing is claimed
                    out.counters["probe:late-fault-escaped-after-loop"] += 1
                elif in_loop and getattr(rr, "exc_injected", False):
                    # an inner step failed inside the iteration and the failure itself escaped from the call: a
                    # (non-converged) result must still be returned
                    out.violate("C04.R", f"inner-failure-escapes:{rr.exc}", step, fault=f, config=cfg,
                                note="the solve of a loop iteration failed and the call raised instead of returning the last valid iterate")
                elif in_loop:
                    # the injected failure was handled, but a later step of the same call failed on its own with the
                    # last valid iterate (Bregman's final pressure solve is outside the handler) and no result came back
                    who_r = ("bregman:final-pressure-solve" if getattr(rr, "exc_site", "other") == "final-pressure-solve"
                             else cfg["method"].split("-")[0])
                    out.violate("C04.R", f"organic-failure-after-handled-failure:{who_r}", step,
                                fault=f, config=cfg, escaped=rr.exc,
                                note="the failure of a loop iteration was handled, but the call then raised on its own and returned no result")
                else:
                    # initial Darcy solve or Bregman's final pressure solve: outside the handler, no result returned
                    out.counters["probe:fault-propagated-no-result"] += 1
                out.event(kind="fault", fault=f, fired=True, exc=rr.exc)
                continue
            obs = check_result(cfg, rr, out, "faulted", step, fault=f)
            out.event(kind="fault", fault=f, fired=True, distance=obs["distance"], converged=obs.get("converged"),
                      completed=obs["completed"], flux=obs["flux"])
            out.nontrivial.add("|".join(map(str, (cfg["method"], cfg["formulation"], cfg["linear_solver"], cfg["l1_mode"],
                                                 cfg["mobility_mode"], bool(cfg.get("aa_depth")), bool(cfg.get("weight")),
                                                 f["site"], f["occurrence"], f["exc"]))))
            if not obs["finite"]:
                continue
            if f["site"] in ("bookkeeping", "anderson"):
                # the failing iteration had already produced its iterate (and distance): M, D, A, S apply, V has no reference
                out.counters["probe:late-failure-result-checked"] += 1
                continue
            # ---- V: last valid iterate = fault-free run truncated before the failed iteration
            j = f["occurrence"] - 1  # loop iteration in which the solve failed
            if j not in trunc_cache:
                trunc_cache[j] = self._truncated(cfg, j, env, out)
            tr = trunc_cache[j]
            if tr is None:
                continue
            tol = 1e-11  # both runs execute the same operations from the same RNG state: iterative back-ends included
            fs = float(np.max(np.abs(tr["flux"]))) + 1e-300
            ds = abs(tr["distance"]) + 1e-300
            where = "failure@iter0" if j == 0 else "failure@iter>=1"
            if not _relclose(obs["flux"], tr["flux"], tol, fs):
                out.violate("C04.V", f"flux:{where}", step, fault=f, config=cfg,
                            max_flux_difference=float(np.max(np.abs(obs["flux"] - tr["flux"]))))
            elif abs(obs["distance"] - tr["distance"]) > tol * ds:
                out.violate("C04.V", f"distance:{where}", step, fault=f, config=cfg,
                            got=obs["distance"], last_valid_iterate_cost=tr["distance"])
            else:
                out.counters["probe:last-valid-iterate-checked"] += 1
        return out

    def _truncated(self, cfg, j, env, out):
        """(distance, flux) of the last valid iterate when the solve of loop iteration j fails."""
        if j >= 1:
            rr = run_solver(cfg, None, num_iter=j, env=env)
            out.counters["op:truncated-run"] += 1
            if rr.ret is None or rr.warned:
                return None
            d, sol, _ = rr.seam.captured
            nf = rr.obj.grid.num_faces
            return {"distance": float(d), "flux": np.array(sol[:nf])}
        # j == 0: the initial Darcy iterate and its cost
        obj = build(cfg)
        a, b = mass_pair(cfg)
        ref = make_ref(cfg)
        rhs = np.concatenate([np.zeros(ref.num_faces), ref.cell_volume * (b - a).ravel(order="F"), np.zeros(1)])
        try:
            sol, _ = obj.linear_solve(obj.darcy_init.copy(), rhs.copy(), np.zeros_like(rhs))
        except Exception:
            return None
        out.counters["op:initial-iterate-reference"] += 1
        u = np.array(sol[:ref.num_faces])
        return {"distance": ref.cost(u, weight_array(cfg), cfg["l1_mode"]), "flux": u}

    # ------------------------------------------------------------------ shrinking
    def shrink_candidates(self, case):
        cfg = case["config"]
        if case["faults"] == "all":
            # reduce to single fault points (never execute library code here: the minimiser runs in the pristine
            # parent process, every execution happens in forks)
            n = cfg["num_iter"] + 2
            seed = case.get("seed", 0)
            for k in range(0, n):
                for si, site in enumerate(SITES + (["anderson"] if cfg.get("aa_depth") else [])):
                    c = copy.deepcopy(case)
                    c["faults"] = [{"site": site, "occurrence": k, "exc": EXC_TYPES[(seed + 3 * k + (si if site != "anderson" else 5)) % len(EXC_TYPES)]}]
                    c["forms"] = False
                    yield c
            c = copy.deepcopy(case)
            c["faults"] = []
            c["forms"] = False
            yield c
        if case.get("prelude"):
            c = copy.deepcopy(case)
            c.pop("prelude")
            yield c
        if case.get("forms"):
            c = copy.deepcopy(case)
            c["forms"] = False
            yield c
        if case.get("env"):
            c = copy.deepcopy(case)
            c["env"] = {}
            yield c
        for key in ("warm", "verbose"):
            if cfg.get(key):
                c = copy.deepcopy(case)
                c["config"].pop(key)
                yield c
        if cfg["pair"].get("scale"):
            c = copy.deepcopy(case)
            c["config"]["pair"].pop("scale")
            yield c
        for key, val in (("aa_depth", 0), ("aa_restart", None), ("weight", None), ("L", None), ("tol_residual", None),
                         ("tol_increment", None), ("tol_distance", None), ("mobility_mode", "CELL_BASED"),
                         ("l1_mode", "raviart_thomas"), ("linear_solver", "direct"), ("formulation", "pressure"),
                         ("voxel_size", [1.0] * len(cfg["shape"])), ("ls_options", {}), ("exc", None)):
            if key in cfg and cfg[key] != val and not (val is None and cfg[key] is None):
                c = copy.deepcopy(case)
                if val is None:
                    c["config"].pop(key)
                else:
                    c["config"][key] = val
                yield c
        if isinstance(case["faults"], list):
            mx = max([f["occurrence"] for f in case["faults"]] + [0])
            if cfg["num_iter"] > max(1, mx):
                c = copy.deepcopy(case)
                c["config"]["num_iter"] = max(1, mx)
                yield c
            for f_i, f in enumerate(case["faults"]):
                if f["exc"] != "RuntimeError":
                    c = copy.deepcopy(case)
                    c["faults"][f_i]["exc"] = "RuntimeError"
                    yield c
                if f["site"] != "entry":
                    c = copy.deepcopy(case)
                    c["faults"][f_i]["site"] = "entry"
                    yield c
        for ax in range(len(cfg["shape"])):
            if cfg["shape"][ax] > 1 and np.prod(cfg["shape"]) // cfg["shape"][ax] * (cfg["shape"][ax] - 1) >= 2:
                c = copy.deepcopy(case)
                c["config"]["shape"][ax] -= 1
                yield c
        if cfg["pair"]["kind"] != "dense":
            c = copy.deepcopy(case)
            c["config"]["pair"]["kind"] = "dense"
            yield c
        if cfg["method"] == "bregman-adaptive":
            c = copy.deepcopy(case)
            c["config"]["method"] = "bregman"
            c["config"].pop("update_every", None)
            yield c
