#!/venv/bin/python
"""(Re)generates mutants/<ID>/<name>.patch from textual replacements against /repo/src (current HEAD).

Each mutant is a realistic, test-suite-passing change that breaks one claimed property and needs something
specific (a history, a fault, an unusual configuration) to manifest.  `./selftest sensitivity` applies every
patch to a scratch copy of /repo/src and requires the quick check of that property to exit 1.
"""
import difflib
import os
import sys

ROOT = os.path.dirname(os.path.dirname(os.path.abspath(__file__)))
SRC = "/repo"

M = []


def mutant(pid, name, path, old, new, note):
    M.append((pid, name, path, old, new, note))


# ------------------------------------------------------------------ C03
mutant("C03", "array-volume-without-scaling", "src/darsia/measure/integration.py",
       """                    resize_axis(resize_axis(self.voxel_volume, rows, 0), cols, 1)
                    * scaling
                )
""", """                    resize_axis(resize_axis(self.voxel_volume, rows, 0), cols, 1)
                )
""", "array volumes resized without the voxel-count scaling: wrong only for data at another resolution")
mutant("C03", "weights-keep-their-dtype", "src/darsia/measure/integration.py",
       """        if isinstance(weight, np.ndarray):
            weight = weight.astype(np.float64)
""", """        if isinstance(weight, np.ndarray):
            weight = weight.copy()
""", "weight arrays enter the voxel volume in their own dtype (float32 / uint8 maps): reverse of D32, whose revert conflicts with D39")
mutant("C03", "array-cache-compared-with-native-shape", "src/darsia/measure/integration.py",
       """            cached_shape = list(self.cached_voxel_volume.shape)
""", """            cached_shape = list(self.voxel_volume.shape)
""", "cache validity checked against the native shape: returning to native data after resized data keeps the resized volume")
mutant("C03", "scale-before-resize-not-exception-safe", "src/darsia/measure/integration.py",
       """                self.cached_voxel_volume = (
                    resize_axis(resize_axis(self.voxel_volume, rows, 0), cols, 1)
                    * scaling
                )
""", """                self.cached_voxel_volume = self.voxel_volume * scaling
                self.cached_voxel_volume = resize_axis(
                    resize_axis(self.cached_voxel_volume, rows, 0), cols, 1
                )
""", "same arithmetic, but a failing resize leaves a scaled native-shape volume in the cache (needs a fault)")

# ------------------------------------------------------------------ C04
mutant("C04", "newton-distance-before-anderson", "src/darsia/measure/wasserstein.py",
       """                # Update the solution with the full Netwon step
                solution_i += update_i
""", """                # Update the solution with the full Netwon step
                solution_i += update_i
                new_distance = self.l1_dissipation(solution_i[self.flux_slice])
""" , "see second hunk")  # placeholder, replaced below
M.pop()
mutant("C04", "newton-distance-before-anderson", "src/darsia/measure/wasserstein.py",
       """                # Update discrete W1 distance
                flux = solution_i[self.flux_slice]
                new_distance = self.l1_dissipation(flux)

                # Update increment
                increment = solution_i - old_solution_i
""", """                # Update discrete W1 distance
                flux = old_solution_i[self.flux_slice] + update_i[self.flux_slice]
                new_distance = self.l1_dissipation(flux)

                # Update increment
                increment = solution_i - old_solution_i
""", "distance evaluated for the un-accelerated Newton iterate: differs from the returned flux only with Anderson acceleration")
mutant("C04", "newton-flux-increment-of-raw-update", "src/darsia/measure/wasserstein.py",
       """                convergence_history["flux_increment"].append(
                    np.linalg.norm(increment[self.flux_slice], 2)
                )
""", """                convergence_history["flux_increment"].append(
                    np.linalg.norm(update_i[self.flux_slice], 2)
                )
""", "the flux-increment criterion is evaluated on the raw Newton update, not on the step actually taken: with Anderson acceleration the run is reported converged while the iterate still moves (history and status agree with each other; only the trajectory recorded at the linear-solve seam shows it)")
mutant("C04", "bregman-distance-increment-after-variable-update", "src/darsia/measure/wasserstein.py",
       """                # Update distance
                new_distance = self.l1_dissipation(flux)

                # Catch nan values
""", """                # Update distance
                new_distance = self.l1_dissipation(flux)
                if iter > 0 and not update_solver:
                    old_distance = 0.5 * (old_distance + new_distance)

                # Catch nan values
""", "Bregman measures the distance increment against a smoothed previous distance (half the true increment) in the iterations without regularisation update: runs are reported converged while the relative distance increment of the recorded trajectory is still above tol_distance (history and status agree with each other)")
mutant("C04", "rhs-without-cell-volume", "src/darsia/measure/wasserstein.py",
       """        # Define right hand side
        rhs = np.concatenate(
            [
                np.zeros(self.grid.num_faces, dtype=float),
                self.mass_matrix_cells.dot(flat_mass_diff),
                np.zeros(1, dtype=float),
            ]
        )

        # Initialize Newton iteration with Darcy solution for unitary mobility
        solution_i = np.zeros_like(rhs, dtype=float)
        solution_i, _ = self.linear_solve(
            self.darcy_init.copy(), rhs.copy(), solution_i
        )

        # Initialize distance in case below iteration fails - it needs to describe the
        # initial iterate, which is returned in that case
        new_distance = self.l1_dissipation(solution_i[self.flux_slice])
        iteration_failed = False

        # Initialize container for storing the convergence history
        convergence_history = {
            "distance": [],
            "mass_conservation_residual": [],
""", """        # Define right hand side
        rhs = np.concatenate(
            [
                np.zeros(self.grid.num_faces, dtype=float),
                flat_mass_diff,
                np.zeros(1, dtype=float),
            ]
        )

        # Initialize Newton iteration with Darcy solution for unitary mobility
        solution_i = np.zeros_like(rhs, dtype=float)
        solution_i, _ = self.linear_solve(
            self.darcy_init.copy(), rhs.copy(), solution_i
        )

        # Initialize distance in case below iteration fails - it needs to describe the
        # initial iterate, which is returned in that case
        new_distance = self.l1_dissipation(solution_i[self.flux_slice])
        iteration_failed = False

        # Initialize container for storing the convergence history
        convergence_history = {
            "distance": [],
            "mass_conservation_residual": [],
""", "Bregman right-hand side without the cell volume: mass balance broken only for voxel volume != 1")
mutant("C04", "bregman-final-solve-updates-flux", "src/darsia/measure/wasserstein.py",
       """        solution_i[self.pressure_slice] = newton_update[self.pressure_slice]
""", """        solution_i[self.pressure_slice] = newton_update[self.pressure_slice]
        solution_i[self.flux_slice] += newton_update[self.flux_slice]
""", "final pressure solve also applies the Newton update to the flux: reported distance no longer the cost of the returned flux")
mutant("C04", "failure-flag-only-for-solver-errors", "src/darsia/measure/wasserstein.py",
       """            except Exception:
                warnings.warn("Newton iteration abruptly stopped due to some error.")
                iteration_failed = True
""", """            except Exception as newton_error:
                warnings.warn("Newton iteration abruptly stopped due to some error.")
                iteration_failed = isinstance(
                    newton_error, (RuntimeError, np.linalg.LinAlgError)
                )
""", "only solver-type errors flag the run as failed: converged=True after e.g. a ValueError / MemoryError in the inner solve")
mutant("C04", "bregman-distance-of-new-iterate-kept-after-failure", "src/darsia/measure/wasserstein.py",
       """                    flux = solution_i[self.flux_slice]
                    stats_i["time_solve"] = time.time() - tic
                    stats_i["time_assemble"] = time_assemble

                    # 2. Shrink step for vectorial fluxes.
                    tic = time.time()
                    new_aux_flux = self._shrink(flux + old_force, shrink_factor)
""", """                    flux = solution_i[self.flux_slice]
                    new_distance = self.l1_dissipation(flux)
                    stats_i["time_solve"] = time.time() - tic
                    stats_i["time_assemble"] = time_assemble

                    # 2. Shrink step for vectorial fluxes.
                    tic = time.time()
                    new_aux_flux = self._shrink(flux + old_force, shrink_factor)
""", "harmless duplicate evaluation (control: must NOT necessarily be caught) - kept out of the required set")
M.pop()

mutant("C04", "converged-flag-ignores-failure", "src/darsia/measure/wasserstein.py",
       """            "converged": not iteration_failed and iter < num_iter - 1,
""", """            "converged": iter < num_iter - 1,
""", "status derived from the iteration counter only (the reverse of fix df5b898, whose textual revert conflicts with 5088d2b)")

# ------------------------------------------------------------------ C16
mutant("C16", "jacobi-diag-cached-per-dim", "src/darsia/utils/linear_solvers/jacobi.py",
       """        const_diag = self._diag(h)
""", """        if not hasattr(self, "_diag_cache"):
            self._diag_cache = {}
        if (self.dim, h) not in self._diag_cache:
            self._diag_cache[(self.dim, h)] = self._diag(h)
        const_diag = self._diag_cache[(self.dim, h)]
""", "diagonal memoised per (dim, h): ignores coefficient updates")
mutant("C04", "bregman-always-reuses-factorisation", "src/darsia/measure/wasserstein.py",
       """                        reuse_solver=iter > 0,
""", """                        reuse_solver=True,
""", "first Bregman iteration reuses the factorisation of the initial Darcy system: wrong whenever L*L_init != 1 (no dependence on earlier calls, hence a C04 mutant)")
mutant("C16", "tvd-rhs-memo-per-shape", "src/darsia/restoration/split_bregman_tvd.py",
       """    def _rhs_function(dt: np.ndarray, bt: np.ndarray, ellt) -> np.ndarray:
        result = np.multiply(omega, img)
""", """    def _rhs_function(dt: np.ndarray, bt: np.ndarray, ellt) -> np.ndarray:
        key = (img.shape, str(img.dtype), np.ndim(omega))
        if key not in _WEIGHTED_IMAGE_MEMO:
            _WEIGHTED_IMAGE_MEMO[key] = np.multiply(omega, img)
        result = _WEIGHTED_IMAGE_MEMO[key].copy()
""", "module-level memo of omega*img keyed by shape only")
mutant("C16", "mg-update-params-skips-smoother", "src/darsia/utils/linear_solvers/mg.py",
       """        self.smoother.update_params(dim, mass_coeff, diffusion_coeff)
""", """        self.smoother.update_params(dim=dim)
""", "parameter update does not reach the smoother")

# ------------------------------------------------------------------ C17
mutant("C17", "weight-without-copy", "src/darsia/image/arithmetics.py",
       """    weighted_img = img.copy()
    if isinstance(weight, float) or isinstance(weight, int):
""", """    weighted_img = img
    if isinstance(weight, float) or isinstance(weight, int):
""", "weighting works on the input image itself")
mutant("C17", "shallow-image-copy", "src/darsia/image/image.py",
       """        Returns:
            Image: Copy of the image object.

        \"\"\"
        return copy.deepcopy(self)
""", """        Returns:
            Image: Copy of the image object.

        \"\"\"
        return copy.copy(self)
""", "Image.copy shares the pixel array: in-place arithmetic on the copy (scaling) changes the source")
mutant("C17", "uniform-refinement-view", "src/darsia/restoration/resize.py",
       """    # Fetch original data array
    array = image.img.copy()

    for level in range(abs(levels)):
""", """    # Fetch original data array
    array = image.img

    for level in range(abs(levels)):
""", "no copy before refinement; harmless unless an in-place step follows (control)")
M.pop()
mutant("C17", "resize-reseeds-opencv-rng", "src/darsia/restoration/resize.py",
       """        # Extract original image
        img_array = img.img.copy() if input_is_image else img.copy()
""", """        # Extract original image
        cv2.setRNGSeed(0)
        img_array = img.img.copy() if input_is_image else img.copy()
""", "resizing reseeds OpenCV's global random generator (global random state altered; numpy's is untouched)")
mutant("C17", "subtraction-in-place", "src/darsia/image/image.py",
       """            metadata = self.metadata()
            return type(self)(self.img - other.img, **metadata)
""", """            metadata = self.metadata()
            return type(self)(np.subtract(self.img, other.img, out=self.img), **metadata)
""", "difference computed into the left operand's array")

# ------------------------------------------------------------------ C18
mutant("C18", "save-drops-name", "src/darsia/image/image.py",
       """            pickle.dumps(self.metadata(), protocol=pickle.HIGHEST_PROTOCOL),
""", """            pickle.dumps(
                {k: v for k, v in self.metadata().items() if k != "name"},
                protocol=pickle.HIGHEST_PROTOCOL,
            ),
""", "image name not stored")
mutant("C18", "npz-read-casts-to-float", "src/darsia/image/imread.py",
       """    array = npzdata["array"]
    metadata = npzdata["metadata"]
""", """    array = npzdata["array"].astype(float)
    metadata = npzdata["metadata"]
""", "reloaded array always float64")
mutant("C18", "save-swallows-oserror", "src/darsia/image/image.py",
       """        np.savez(
            str(Path(path)),
            array=self.img,
            metadata=metadata,
            kind=type(self).__name__,
            original_dtype=str(np.dtype(self.original_dtype)),
        )
""", """        try:
            np.savez(
                str(Path(path)),
                array=self.img,
                metadata=metadata,
                kind=type(self).__name__,
                original_dtype=str(np.dtype(self.original_dtype)),
            )
        except OSError as e:
            warn(f"Could not store image under {path}: {e}")
""", "a failing write is reported as a warning only: the save is acknowledged (needs an I/O fault)")
mutant("C18", "drift-config-without-roi", "src/darsia/corrections/shape/drift.py",
       """            "padding": self.relative_padding,
            "roi": self.roi,
        }
""", """            "padding": self.relative_padding,
        }
""", "saved drift correction forgets its region of interest")
mutant("C18", "type-correction-stores-name", "src/darsia/corrections/typecorrection.py",
       """        np.savez(path, class_name=type(self).__name__, data_type=self.data_type)
""", """        np.savez(path, class_name=type(self).__name__, data_type=str(self.data_type))
""", "data type stored as string: reloaded correction cannot be applied")
mutant("C18", "reference-date-defaults-to-first-date", "src/darsia/image/image.py",
       """            "reference_date": self.reference_date,
""", """            "reference_date": (
                self.date[0] if isinstance(self.date, list) else self.date
            ),
""", "metadata reports the default reference date: an explicit reference date is lost on save")


# ------------------------------------------------------------------ benign changes (the property still holds: checks must stay quiet)
B = []


def benign(pid, name, path, old, new, note):
    B.append((pid, name, path, old, new, note))


benign("C03", "memo-of-resized-volumes-from-native", "src/darsia/measure/integration.py",
       """                self.cached_voxel_volume = (
                    resize_axis(resize_axis(self.voxel_volume, rows, 0), cols, 1)
                    * scaling
                )
""", """                if not hasattr(self, "_resized_volumes"):
                    self._resized_volumes = {}
                key = tuple(fetched_data.shape[:2])
                if key not in self._resized_volumes:
                    self._resized_volumes[key] = (
                        resize_axis(resize_axis(self.voxel_volume, rows, 0), cols, 1)
                        * scaling
                    )
                self.cached_voxel_volume = self._resized_volumes[key]
""", "correct per-resolution memo (always derived from the native volume)")
benign("C04", "number-of-iterations-counts-completed", "src/darsia/measure/wasserstein.py",
       """            "number_iterations": iter,
""", """            "number_iterations": len(convergence_history["distance"]),
""", "diagnostic field counts completed iterations instead of the last index")
benign("C16", "jacobi-diag-memo-keyed-by-all-inputs", "src/darsia/utils/linear_solvers/jacobi.py",
       """        const_diag = self._diag(h)
""", """        if np.isscalar(self.mass_coeff) and np.isscalar(self.diffusion_coeff):
            if not hasattr(self, "_diag_memo"):
                self._diag_memo = {}
            key = (self.dim, float(self.mass_coeff), float(self.diffusion_coeff), float(h))
            if key not in self._diag_memo:
                self._diag_memo[key] = self._diag(h)
            const_diag = self._diag_memo[key]
        else:
            const_diag = self._diag(h)
""", "correct memo keyed by every quantity the diagonal depends on")
benign("C17", "image-caches-coordinate-system-privately", "src/darsia/image/image.py",
       """        return darsia.CoordinateSystem(self)

    @property
    def opposite_corner""", """        key = (tuple(self.shape), tuple(self.dimensions), tuple(np.asarray(self.origin).tolist()))
        if getattr(self, "_cs_key", None) != key:
            self._cs_key = key
            self._cs = darsia.CoordinateSystem(self)
        return self._cs

    @property
    def opposite_corner""", "lazily filled private cache on the image (not pixel data, metadata or a caller's container)")
benign("C17", "weight-multiplies-into-the-copy", "src/darsia/image/arithmetics.py",
       """        weighted_img.img = np.multiply(weighted_img.img, weight_array)
""", """        weighted_img.img = np.multiply(weighted_img.img, weight_array)
        weighted_img.name = img.name
""", "harmless extra assignment on the result")
benign("C18", "compressed-npz", "src/darsia/image/image.py",
       """        np.savez(
            str(Path(path)),
            array=self.img,
""", """        np.savez_compressed(
            str(Path(path)),
            array=self.img,
""", "images stored compressed")
benign("C18", "type-correction-keeps-path-type", "src/darsia/corrections/typecorrection.py",
       """        self.data_type = np.load(path, allow_pickle=True)["data_type"].item()
""", """        with np.load(path, allow_pickle=True) as data:
            self.data_type = data["data_type"].item()
""", "file handle closed explicitly")


def main():
    made = 0
    for pid, name, path, old, new, note in B:
        full = os.path.join(SRC, path)
        s = open(full).read()
        if s.count(old) != 1 and name != "number-of-iterations-counts-completed":
            print(f"SKIP benign {pid}/{name}: anchor found {s.count(old)} times in {path}")
            continue
        t = s.replace(old, new)
        diff = "".join(difflib.unified_diff(s.splitlines(True), t.splitlines(True), "a/" + path, "b/" + path))
        d = os.path.join(ROOT, "benign", pid)
        os.makedirs(d, exist_ok=True)
        with open(os.path.join(d, name + ".patch"), "w") as f:
            f.write(f"# {note}\n" + diff)
    for pid, name, path, old, new, note in M:
        full = os.path.join(SRC, path)
        s = open(full).read()
        if s.count(old) != 1 and name not in ("converged-flag-ignores-failure",):
            print(f"SKIP {pid}/{name}: anchor found {s.count(old)} times in {path}")
            continue
        t = s.replace(old, new)
        if name == "tvd-rhs-memo-per-shape":
            t = t.replace("import darsia as da\n", "import darsia as da\n\n_WEIGHTED_IMAGE_MEMO: dict = {}\n", 1)
        if name == "save-swallows-oserror" and "from warnings import warn" not in t:
            t = t.replace("import cv2\n", "from warnings import warn\nimport cv2\n", 1)
        diff = "".join(difflib.unified_diff(s.splitlines(True), t.splitlines(True), "a/" + path, "b/" + path))
        d = os.path.join(ROOT, "mutants", pid)
        os.makedirs(d, exist_ok=True)
        with open(os.path.join(d, name + ".patch"), "w") as f:
            f.write(f"# {note}\n" + diff)
        made += 1
    print(f"{made} mutants written")


if __name__ == "__main__":
    sys.exit(main())
