#!/venv/bin/python
"""Regenerates /verif/MANIFEST.json from the tables below (single source of truth)."""
import json
import os

ROOT = os.path.dirname(os.path.dirname(os.path.abspath(__file__)))

NA = {
 "C01": "pure function of image geometry (origin, dimensions, shape); no clock, I/O, fault path or cross-call state in the anchored code for a simulator to control",
 "C02": "extractions return new objects and read only their receiver; a 'program' of extractions is a composition of pure functions, i.e. structured input generation, not a history on shared state (append/stack side effects are decided under C17)",
 "C05": "metric laws and lower bounds are statements over input pairs of a deterministic computation; no schedule, fault or history quantifier",
 "C06": "algebraic identities of matrices built from a grid shape; pure",
 "C07": "finite combinatorial tables built from a grid shape; pure and exhaustively enumerable (model checking, not simulation)",
 "C08": "equivalence of formulations/back-ends on one linear system is pure linear algebra; the cached-factorisation slice is exercised only as a by-product of the C16/C04 engines, no claim made",
 "C09": "invertibility / exact voxel motion of affine maps; pure over inputs x configurations",
 "C10": "single-call contract per correction class over inputs x configurations; no history, fault or I/O quantifier",
 "C11": "conservation identities of resampling operators; pure",
 "C12": "optimiser recovers a map / matrix-composition algebra; pure (a fresh balance object per correction call, no cross-call state)",
 "C13": "straight-line pipeline of one call; stage order fixed by code, analysis object carries no per-call mutable state",
 "C14": "defining algebra of models over inputs x configurations; the only concurrency (numba parallel kernels) runs on threads a Python-level scheduler cannot park or order",
 "C15": "literal quadrature tables; finite and pure",
 "C19": "tiling arithmetic; pure",
 "C20": "finite axis-convention tables; pure",
}

CHECKS = {
 "C04": dict(
  engine="c04_wfaults", category="fault_enumeration", design_ref="DESIGN.md §5.2",
  technique="deterministic simulation with fault injection: per sampled solver configuration, exhaustive enumeration of inner linear-solve failure points (iteration index x site) with reference-model oracles on every returned result",
  text="For every sampled configuration (method x formulation x back-end x L1/mobility mode x Anderson x weights x grid x masses x tolerances) all fault points of the stated quantifier are visited: one run per inner-solve index k=1..n-1 and site (linear_solve entry, back-end solve, set-up, inside pyamg's set-up, Anderson step, bookkeeping), exception types rotating. Each returned result is checked for mass balance against an independent divergence model (tolerance from the measured linear residual), distance = cost of the returned flux, auxiliary outputs, status (converged only if no inner failure and the criteria are met both on the library's history and on the trajectory recorded at the linear-solve seam), last-valid-iterate equality with the truncated fault-free run, and a bound on the number of solves; a fault-free call that raises (C04.X), a non-finite returned iterate (C04.N) and a handled failure followed by an escaping exception (C04.R) are violations. Complete over fault points within a configuration (three sampled points in the long-run profile); configurations are sampled. Four recorded known findings (K3-K5, known_findings.json) print KNOWN-FINDING lines.",
  note="Trusted: the library's quadrature table for the RT0 mode (exactness is C15's subject), numpy/scipy/pyamg; seam names linear_solve, setup_*_solver, linear_solver, _solve and module attributes time/tracemalloc of darsia.measure.wasserstein; a 'failure' is an Exception (BaseExceptions escape the handler by design and are only counted)."),
 "C16": dict(
  engine="c16_hidden_state", category="exploration", design_ref="DESIGN.md §5.3",
  technique="deterministic simulation: seeded call histories (interleaved clients, env perturbations, interrupt and allocation faults) executed in a forked pristine process and compared call-by-call with the same call issued first in another pristine fork",
  text="Seeded search over histories of <= 4 result-bearing calls per client on explicit solver objects and the library's shared default solver instances; each result is compared (1e-12 relative; iterative back-ends 1e-11 under a harness-owned RNG) with the same call issued first in a pristine forked process whose object was built from the constructor arguments and given the parameters set for it, under a second interleaving of the same client programs, and after interrupted calls. Sampling, not proof.",
  note="Trusted: os.fork of a process that only imported darsia as 'fresh process' (a sample is re-run in a cold interpreter with another PYTHONHASHSEED by the determinism check); the harness model of which parameters H1 / split-Bregman set on an explicit solver; memoised numba.njit is semantically transparent; seam names Jacobi._neighbor_accumulation, split_bregman_tvd.njit, wasserstein.time."),
 "C17": dict(
  engine="c17_no_mutation", category="exploration", design_ref="DESIGN.md §5.4",
  technique="deterministic simulation of call histories on a pool of shared operands: seeded programs over a registry of call forms, deep snapshot of every pool member and of the global RNG states compared after every step, minimised replayable traces",
  text="Seeded search over programs of 2-8 calls drawn from a registry of ~45 call forms documented to return a new object, on a pool of shared images, arrays and caller-owned containers; results join the pool. After every step all pool members (arguments and bystanders) and the numpy / Python global RNG states must equal their pre-step snapshots, and image arithmetic must equal the numpy expression on the raw arrays. Sampling over inputs and programs; no fault or time dimension exists for this property.",
  note="Trusted: the snapshot function (engines/c17_no_mutation.py: snap) reaches all state of an operand through __dict__, list/tuple/dict items and array bytes; calls that raise claim nothing; reset_origin is documented to modify its receiver."),
 "C18": dict(
  engine="c18_storage", category="exploration", design_ref="DESIGN.md §5.5",
  technique="deterministic simulation with fault injection: seeded save/read programs on a scratch directory behind a storage seam (injected OSErrors at the n-th open/write/flush/close/read/mkdir), process restarts between segments (forked pristine processes), in-memory path model with acknowledged / indeterminate states",
  text="Seeded search over programs of saves, reads, byte-string decodes, optical writes and correction save/reload on one directory, with injected I/O errors inside operations and process restarts between them; every save that returned normally must read back (in the same or a restarted process) to identical pixel data, dtype and metadata, decoded byte strings must give the original array in RGB order with the matching image kind, lossless optical write/read must return the same colours with ImageMagick absent or present, and a reloaded correction must produce the output recorded before saving. Sampling, not proof.",
  note="Trusted: the storage seam sees every Python-level file access of np.savez/np.load (zipfile) but not OpenCV's C-level imwrite/imread, which run fault-free; a save that raised promises nothing; class and original_dtype of the reloaded image are compared; the OpenCV / numpy RNG states are decided by the harness and differ between the stored and the reloaded correction; one recorded known finding (K2: 16-bit planar RGB TIFF byte strings)."),
 "C03": dict(
  engine="c03_geometry", category="exploration", design_ref="DESIGN.md §5.1",
  technique="deterministic simulation: seeded interleaving of client programs on shared caching Geometry objects, injected resize failures and environment perturbations, per-step fresh-clone and reference-model oracles",
  text="Seeded search over histories on shared Geometry objects (all five classes, 1-3-D, scalar/array/Image weights): every step's integral is compared with a fresh clone (history independence), with an independent weighted-voxel-sum model (value, linearity, normalisation) and across two interleavings of the same client programs. Sampling, not proof: a clean batch is evidence that no history of <= 15 calls over the generated resolution classes leaves state behind.",
  note="Trusted: numpy (the value oracle compares at 1e-11 relative for every integer refinement / coarsening factor per axis, mixed included; non-integer ratios only perturb the cache); seam name darsia.measure.integration.cv2; interleaving at call granularity only."),
}

ENGINE_KIND = {
 "c03_geometry": "history/interleaving simulator over shared Geometry objects with resize fault seam",
 "c04_wfaults": "fault-point enumeration of inner linear-solve failures in the Wasserstein solvers",
 "c16_hidden_state": "history simulator with pristine-process (forked zygote) reference evaluations",
 "c17_no_mutation": "shared-operand pool simulator with deep snapshots after every step",
 "c18_storage": "storage simulator: file-system seam with injected I/O errors and process restarts",
}


def main():
    checks = []
    engines = []
    for pid in sorted(CHECKS):
        c = CHECKS[pid]
        checks.append({
            "property_id": pid,
            "quick_cmd": f"./check {pid} --tier quick",
            "thorough_cmd": f"./check {pid} --tier thorough",
            "evidence_file": f"/verif/evidence/{pid}.json",
            "replay_cmd_template": f"./check {pid} --replay {{path}}",
            "engine": c["engine"],
            "level_claimed": {"category": c["category"], "text": c["text"], "design_ref": c["design_ref"]},
            "level_note": c["note"],
            "technique": c["technique"],
        })
        engines.append({"name": c["engine"], "path": f"engines/{c['engine']}.py", "serves_properties": [pid],
                        "kind_free_text": ENGINE_KIND[c["engine"]]})
    m = {
        "version": 1,
        "setup_cmd": "./setup.sh",
        "hooks": {
            "guard": "DARSIA_VERIF",
            "enable": "no source hooks: every seam is attached from the harness by attribute patching at run time; checks import darsia from /repo/src (editable install), so they always run /repo's current working tree",
            "baseline_off_cmd": "cd /repo && /venv/bin/python -m pytest -ra -q -p no:cacheprovider --timeout=900 --continue-on-collection-errors",
            "source_commits": [],
            "add_only": True,
        },
        "engines": engines,
        "checks": checks,
        "notes": "Deterministic simulation with fault injection (DESIGN.md). Exit codes of ./check: 0 held, 1 VIOLATION line printed, 2 harness error. known_findings.json lists recorded/fixed defects; regressions/<id>/ holds their minimised traces, re-run on every check.",
        "not_applicable": [{"property_id": k, "reason": v} for k, v in sorted(NA.items()) if k not in CHECKS],
    }
    missing = {f"C{i:02d}" for i in range(1, 21)} - set(CHECKS) - set(NA)
    for pid in sorted(missing):
        m["not_applicable"].append({"property_id": pid, "reason": "claimed in DESIGN.md; check under construction in this round, not yet registered"})
    with open(os.path.join(ROOT, "MANIFEST.json"), "w") as f:
        json.dump(m, f, indent=1)


if __name__ == "__main__":
    main()
