#!/venv/bin/python
"""Minimise a violating case by hand: tools/minimise.py <ID> <case-or-replay.json> <signature> <out.json> [budget_s]"""
import json
import os
import sys

HERE = os.path.dirname(os.path.dirname(os.path.abspath(__file__)))
for v in ("OMP_NUM_THREADS", "OPENBLAS_NUM_THREADS", "MKL_NUM_THREADS", "NUMBA_NUM_THREADS"):
    os.environ[v] = "1"
os.environ.setdefault("MPLBACKEND", "Agg")
sys.path.insert(0, HERE)
sys.path.insert(0, "/repo/src")
import importlib  # noqa: E402
import warnings  # noqa: E402
warnings.filterwarnings("ignore")
from dsim import kernel, runner  # noqa: E402

ENG = {"C03": ("engines.c03_geometry", "C03Engine"), "C04": ("engines.c04_wfaults", "C04Engine"),
       "C16": ("engines.c16_hidden_state", "C16Engine"), "C17": ("engines.c17_no_mutation", "C17Engine"),
       "C18": ("engines.c18_storage", "C18Engine")}


def main():
    pid, src, sig, dst = sys.argv[1:5]
    budget = float(sys.argv[5]) if len(sys.argv) > 5 else 120.0
    mod, cls = ENG[pid]
    eng = getattr(importlib.import_module(mod), cls)()
    eng.check_seams()
    d = json.load(open(src))
    case = d.get("case", d)
    best, out, tried = kernel.minimise(eng, case, sig, budget, lambda c: runner.exec_case_fresh(eng, c))
    vs = [v for v in out["violations"] if kernel.signature(v) == sig]
    assert vs, "signature not reproduced"
    json.dump({"note": os.path.basename(dst)[:-5], "signature": sig, "case": best}, open(dst, "w"), indent=1)
    print("tried", tried, "->", json.dumps(best)[:600])


if __name__ == "__main__":
    main()
