#!/venv/bin/python
"""Vets a seeded change delivered by a sub-agent: fresh scratch worktree of /repo HEAD, patch applies, demo exits 1
with the change and 0 without, the repository's unit tests still pass with the change.  On success copies it to
/verif/seeded/<name>/ (patch.diff, demo.py, meta.json incl. what was run)."""
import json
import os
import shutil
import subprocess
import sys


def sh(cmd, cwd=None, env=None, timeout=1800):
    e = dict(os.environ)
    e.update(env or {})
    return subprocess.run(cmd, shell=True, cwd=cwd, env=e, capture_output=True, text=True, timeout=timeout)


def main(src, name):
    wt = f"/tmp/vet-{name}"
    sh(f"git -C /repo worktree remove --force {wt}")
    r = sh(f"git -C /repo worktree add -q {wt} HEAD")
    assert r.returncode == 0, r.stderr
    env = {"PYTHONPATH": f"{wt}/src", "OMP_NUM_THREADS": "1", "MPLBACKEND": "Agg"}
    res = {"name": name}
    try:
        os.makedirs(f"{wt}/deliver/x", exist_ok=True)
        shutil.copy(f"{src}/demo.py", f"{wt}/deliver/x/demo.py")
        demo = f"/venv/bin/python deliver/x/demo.py"
        # rewrite absolute worktree paths inside the demo, if any
        txt = open(f"{wt}/deliver/x/demo.py").read()
        res["demo_clean"] = sh(demo, cwd=wt, env=env).returncode
        ap = sh(f"git apply {src}/patch.diff", cwd=wt)
        res["applies"] = ap.returncode == 0
        if not res["applies"]:
            res["apply_err"] = ap.stderr[-300:]
        else:
            d = sh(demo, cwd=wt, env=env)
            res["demo_patched"] = d.returncode
            res["demo_output"] = (d.stdout + d.stderr)[-400:]
            t = sh("/venv/bin/python -m pytest -q -p no:cacheprovider --timeout=900 tests/unit 2>&1 | tail -1", cwd=wt, env=env)
            res["tests"] = t.stdout.strip()
            imp = sh("/venv/bin/python -c 'import darsia,sys;print(darsia.__file__)'", cwd=wt, env=env)
            res["import_path"] = imp.stdout.strip()
        ok = (res.get("applies") and res["demo_clean"] == 0 and res.get("demo_patched") == 1
              and res.get("tests", "").startswith("123 passed") and res.get("import_path", "").startswith(wt))
        res["accepted"] = bool(ok)
        if ok:
            dst = f"/verif/seeded/{name}"
            os.makedirs(dst, exist_ok=True)
            shutil.copy(f"{src}/patch.diff", f"{dst}/patch.diff")
            shutil.copy(f"{src}/demo.py", f"{dst}/demo.py")
            meta = json.load(open(f"{src}/meta.json"))
            meta["vetted"] = {"worktree": "scratch worktree of /repo HEAD under /tmp (removed)", "patch_applies": True,
                              "demo_exit_without_change": res["demo_clean"], "demo_exit_with_change": res["demo_patched"],
                              "unit_tests_with_change": res["tests"],
                              "commands": ["git apply patch.diff", "PYTHONPATH=<wt>/src /venv/bin/python demo.py",
                                           "PYTHONPATH=<wt>/src /venv/bin/python -m pytest -q -p no:cacheprovider tests/unit"]}
            json.dump(meta, open(f"{dst}/meta.json", "w"), indent=1)
    finally:
        sh(f"git -C /repo worktree remove --force {wt}")
    print(json.dumps(res))
    return 0


if __name__ == "__main__":
    sys.exit(main(sys.argv[1], sys.argv[2]))
