#!/venv/bin/python
"""Vets a benign (property-preserving) change delivered by a sub-agent: patch applies to /repo HEAD in a scratch
worktree and the unit tests pass; then stores it under /verif/benign_seeded/<name>/."""
import json
import os
import shutil
import subprocess
import sys


def sh(cmd, cwd=None, env=None):
    e = dict(os.environ)
    e.update(env or {})
    return subprocess.run(cmd, shell=True, cwd=cwd, env=e, capture_output=True, text=True, timeout=1800)


def main(src, name):
    wt = f"/tmp/vetb-{name}"
    sh(f"git -C /repo worktree remove --force {wt}")
    assert sh(f"git -C /repo worktree add -q {wt} HEAD").returncode == 0
    res = {"name": name}
    try:
        ap = sh(f"git apply {src}/patch.diff", cwd=wt)
        if ap.returncode != 0:
            ap = sh(f"patch -p1 --fuzz=3 -s < {src}/patch.diff", cwd=wt)
        res["applies"] = ap.returncode == 0
        if res["applies"]:
            env = {"PYTHONPATH": f"{wt}/src", "OMP_NUM_THREADS": "1", "MPLBACKEND": "Agg"}
            t = sh("/venv/bin/python -m pytest -q -p no:cacheprovider --timeout=900 tests/unit 2>&1 | tail -1", cwd=wt, env=env)
            res["tests"] = t.stdout.strip()
            if res["tests"].startswith("123 passed"):
                dst = f"/verif/benign_seeded/{name}"
                os.makedirs(dst, exist_ok=True)
                d = sh("git diff", cwd=wt).stdout
                open(f"{dst}/patch.diff", "w").write(d)
                for f in ("argue.md", "meta.json"):
                    if os.path.exists(f"{src}/{f}"):
                        shutil.copy(f"{src}/{f}", f"{dst}/{f}")
                res["accepted"] = True
    finally:
        sh(f"git -C /repo worktree remove --force {wt}")
    print(json.dumps(res))


if __name__ == "__main__":
    main(sys.argv[1], sys.argv[2])
