#!/bin/sh
# Nothing to build: the framework is pure Python run by /venv/bin/python against /repo/src.
set -e
cd "$(dirname "$0")"
mkdir -p evidence replays
/venv/bin/python - <<'PY'
import sys
sys.path.insert(0, "/repo/src")
import numpy, scipy, cv2, pyamg  # noqa
import darsia  # noqa
print("setup ok: darsia from", darsia.__file__)
PY
