"""C04 - Bregman + Anderson acceleration: a rank-deficient least-squares problem inside the
Anderson step blows the Bregman variables up to ~1e10; the flux of the next iteration (and
the distance computed from it) violates the discrete mass balance by several percent.

Run:  cd /tmp/wt-C04-i && PYTHONPATH=/tmp/wt-C04-i/src /venv/bin/python deliver/1/demo.py
"""
import sys
import warnings

import numpy as np

import darsia

warnings.filterwarnings("ignore")

# 1-D grid with 10 unit cells, dense equal-mass data with two decimals
m1 = np.array([0.13, 0.50, 0.60, 0.03, 0.15, 0.93, 0.07, 0.13, 0.95, 0.62])
m2 = np.array([0.29, 0.40, 0.51, 0.21, 0.11, 0.61, 0.52, 0.40, 0.63, 0.43])
assert abs(m1.sum() - m2.sum()) < 1e-14
n = m1.size
f = m2 - m1  # destination minus source mass per cell (unit voxels)


def image(arr):
    return darsia.Image(arr.copy(), dimensions=[float(n)], space_dim=1, scalar=True)


def net_outflow(flat_flux):
    """Independent 1-D divergence: face i separates cells i and i+1."""
    out = np.zeros(n)
    out[:-1] += flat_flux
    out[1:] -= flat_flux
    return out


def solve(num_iter, fail_at=None):
    grid = darsia.Grid((n,), [1.0])
    options = {
        "num_iter": num_iter,
        "aa_depth": 5,  # Anderson acceleration on (documented option); no restart
        "tol_residual": 1e-12,
        "tol_increment": 1e-12,
        "tol_distance": 1e-12,
        "return_info": True,
    }
    solver = darsia.WassersteinDistanceBregman(grid, None, options)

    # observe the flat solution (no source hook)
    captured = {}
    orig_solve = solver._solve

    def wrapped(flat_mass_diff):
        distance, solution, info = orig_solve(flat_mass_diff)
        captured["solution"] = solution.copy()
        return distance, solution, info

    solver._solve = wrapped

    # optional: injected failure of the inner linear solve in iteration `fail_at`
    if fail_at is not None:
        orig_linear_solve = solver.linear_solve
        count = {"n": 0}

        def failing(*args, **kwargs):
            # call 0 is the initial Darcy solve, call k+1 belongs to iteration k
            count["n"] += 1
            if count["n"] == fail_at + 2:
                raise RuntimeError("injected failure of the inner linear solve")
            return orig_linear_solve(*args, **kwargs)

        solver.linear_solve = failing

    distance, info = solver(image(m1), image(m2))
    flux = captured["solution"][solver.flux_slice]
    imbalance = np.abs(net_outflow(flux) - f).max() / np.abs(f).max()
    return distance, imbalance, info, flux


# In 1-D the mass balance determines the flux uniquely: u_i = sum_{j<=i} f_j
exact_flux = np.cumsum(f)[:-1]
# transport cost of the exact flux (the library's own rule is used below for the comparison)

violations = []
print("num_iter | distance          | rel. mass imbalance | converged | last iteration")
for num_iter in [8, 9, 10, 11, 12, 30]:
    distance, imbalance, info, flux = solve(num_iter)
    print(
        f"{num_iter:8d} | {distance:.12f}    | {imbalance:.3e}           | "
        f"{info['converged']!s:9} | {info['number_iterations']}"
    )
    if imbalance > 1e-9:
        violations.append(
            f"num_iter={num_iter}: returned flux violates the mass balance by {imbalance:.3e} "
            f"(relative to max|m2-m1|); max|flux - unique 1-D flux| = "
            f"{np.abs(flux - exact_flux).max():.3e}; distance {distance:.12f}"
        )

print()
print("Fault sequence: 60 iterations allowed, inner linear solve fails in iteration 10")
distance, imbalance, info, flux = solve(60, fail_at=10)
print(
    f"  distance {distance:.12f}, rel. mass imbalance {imbalance:.3e}, "
    f"converged={info['converged']}, last iteration={info['number_iterations']}"
)
if imbalance > 1e-9:
    violations.append(
        f"failure injected in iteration 10: the returned 'last valid iterate' violates the "
        f"mass balance by {imbalance:.3e}"
    )

print()
print("EXPECTED: every returned flux satisfies the mass balance to the precision of the")
print("          direct solver (~1e-15 here), whatever num_iter is / wherever a failure hits;")
print("          in 1-D the flux - and hence the distance - is the same for every num_iter.")
if violations:
    print("OBSERVED (violations):")
    for v in violations:
        print("  -", v)
    sys.exit(1)
print("OBSERVED: no violation")
sys.exit(0)
