"""C03: the voxel volume is multiplied up in the data type of the voxel sizes.

Geometry.__init__ computes np.prod(self.voxel_size) in whatever type the entries of
`voxel_size` have and converts the *result* to float64:
  * integer voxel sizes (e.g. nanometres): the product wraps around in int64,
  * float32 voxel sizes (e.g. spacings read from image/vtk/dicom headers): single precision
    product (relative error ~5e-8 in every integral),
  * float16 voxel sizes: the product underflows to 0.
The same numbers passed as Python floats give the correct integral.
"""
import sys
from fractions import Fraction

import numpy as np

import darsia

bad = False
rng = np.random.default_rng(0)


def check(label, observed, expected, tol=1e-9):
    global bad
    rel = abs(float(observed) - float(expected)) / abs(float(expected))
    ok = rel <= tol
    print(f"{label}\n    expected {float(expected)!r}\n    observed {float(observed)!r}"
          f"   rel. error {rel:.2e}  -> {'ok' if ok else 'VIOLATION'}")
    bad |= not ok


# ---- (a) integer voxel sizes: 3 mm voxels given in nanometres, 3-D plain geometry
nv = (2, 3, 4)
data = rng.random(nv)
size_nm = [3_000_000, 3_000_000, 3_000_000]
g_int = darsia.Geometry(3, nv, voxel_size=size_nm)
g_flt = darsia.Geometry(3, nv, voxel_size=[float(s) for s in size_nm])
expected = data.sum() * 27e18
check("(a) Geometry(3, (2,3,4), voxel_size=[3000000]*3).integrate(data)  [ints, nm]",
      g_int.integrate(data), expected)
check("    same voxel sizes as Python floats", g_flt.integrate(data), expected)

# ---- (b) float32 voxel sizes, scalar-weighted (porous) 3-D geometry, series+vector payload
nv = (4, 6, 2)
vs32 = np.array([0.1, 0.3, 0.7], dtype=np.float32)
porosity = 0.3
data = rng.random(nv + (2, 3))
exact_volume = float(
    Fraction(float(vs32[0])) * Fraction(float(vs32[1])) * Fraction(float(vs32[2]))
) * porosity
g32 = darsia.PorousGeometry(porosity, 3, nv, voxel_size=vs32)
g64 = darsia.PorousGeometry(porosity, 3, nv, voxel_size=[float(v) for v in vs32])
expected = data.sum(axis=(0, 1, 2)) * exact_volume
obs32 = g32.integrate(data)
obs64 = g64.integrate(data)
check("(b) PorousGeometry(0.3, 3, (4,6,2), voxel_size=float32 array).integrate(series+vector)"
      " [worst component]",
      obs32.ravel()[np.argmax(np.abs(obs32 / expected - 1))],
      expected.ravel()[np.argmax(np.abs(obs32 / expected - 1))])
check("    same voxel sizes as Python floats",
      obs64.ravel()[np.argmax(np.abs(obs64 / expected - 1))],
      expected.ravel()[np.argmax(np.abs(obs64 / expected - 1))])

# ---- (c) float16 voxel sizes: the product underflows
nv = (2, 2, 2)
vs16 = np.array([1e-3, 1e-3, 1e-3], dtype=np.float16)
data = np.ones(nv)
g16 = darsia.Geometry(3, nv, voxel_size=vs16)
expected = 8 * float(vs16[0]) ** 3
check("(c) Geometry(3, (2,2,2), voxel_size=float16 [1e-3]*3).integrate(ones)",
      g16.integrate(data), expected)

if bad:
    print("\nVIOLATION of C03: the integral is not data times voxel volume; the voxel volume "
          "is evaluated in the data type of the voxel sizes (integration.py:73).")
    sys.exit(1)
print("no violation")
sys.exit(0)
