"""C03: Geometry.normalize mis-aligns the time axis of a scalar reference series with the
component axis of a vector-valued image series.

img      : series of T vector images,  img.img.shape     = (rows, cols, T, C)
img_ref  : series of T scalar images,  img_ref.img.shape = (rows, cols, T)

integrate(img) has shape (T, C), integrate(img_ref) has shape (T,).  normalize divides them with
plain numpy broadcasting, which matches the reference's TIME axis with the image's COMPONENT
axis:  T == C -> silently wrong image,  T != C -> ValueError.
(A non-series scalar reference, or a reference of the same form, work.)
"""
import sys
import warnings

import numpy as np

import darsia

warnings.filterwarnings("ignore")
rng = np.random.default_rng(3)
bad = False

rows, cols = 4, 6
geometry = darsia.ExtrudedPorousGeometry(
    rng.random((rows, cols)) * 0.4 + 0.1, 0.02, 2, (rows, cols), dimensions=[1.0, 1.5]
)


def make(shape, series, scalar):
    return darsia.Image(
        rng.random(shape) + 0.5,
        space_dim=2,
        dimensions=[1.0, 1.5],
        series=series,
        scalar=scalar,
        time=list(range(shape[2])) if series else None,
    )


for T, C in [(3, 3), (2, 3)]:
    img = make((rows, cols, T, C), True, False)  # e.g. a trichromatic image series
    ref = make((rows, cols, T), True, True)  # monochromatic reference series
    I_ref = geometry.integrate(ref)  # (T,)
    print(f"--- image series (T={T}, C={C}) normalized against scalar reference series (T={T})")
    print("integral of the reference per time step:", I_ref)
    try:
        normalized = geometry.normalize(img, ref)
    except Exception as exc:
        print("expected: normalized image whose integral [t, c] equals reference integral [t]")
        print("observed: exception", repr(exc))
        bad = True
        continue
    I_norm = geometry.integrate(normalized)  # (T, C)
    expected = np.repeat(I_ref[:, None], C, axis=1)
    err = np.max(np.abs(I_norm - expected) / np.abs(expected))
    print("expected integral of the normalized image [t, c] = reference [t]:\n", expected)
    print("observed integral of the normalized image [t, c]:\n", I_norm)
    print(f"max rel. deviation {err:.2e}")
    if err > 1e-9:
        bad = True

# control: the same image against one scalar (non-series) reference image is fine
img = make((rows, cols, 3, 3), True, False)
ref0 = make((rows, cols), False, True)
ctrl = geometry.integrate(geometry.normalize(img, ref0)) / geometry.integrate(ref0) - 1
print("control (scalar non-series reference): max deviation", np.max(np.abs(ctrl)))

if bad:
    print("\nVIOLATION of C03: after normalize(img, img_ref) the integrals of image and reference "
          "differ per time step (or normalize raises).")
    sys.exit(1)
print("no violation")
sys.exit(0)
