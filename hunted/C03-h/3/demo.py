"""C03: normalize raises for scalar (non-series) images in extended precision (np.longdouble).

integrate() handles longdouble data (and returns np.longdouble); normalize() of longdouble *series*
or *vector* images works; but for a plain scalar image the ratio of the two integrals is an
np.longdouble scalar, which darsia.weight rejects (it only accepts instances of float / int).
The same happens if only the reference is longdouble.
"""
import sys
import warnings

import numpy as np

import darsia

warnings.filterwarnings("ignore")
rng = np.random.default_rng(5)
bad = False
geometry = darsia.PorousGeometry(rng.random((4, 6)) + 0.1, 2, (4, 6), dimensions=[1.0, 1.5])


def image(dtype, shape=(4, 6), series=False):
    return darsia.Image(
        (rng.random(shape) + 0.5).astype(dtype),
        space_dim=2,
        dimensions=[1.0, 1.5],
        scalar=True,
        series=series,
        time=list(range(shape[2])) if series else None,
    )


cases = [
    ("scalar longdouble image, longdouble reference", image(np.longdouble), image(np.longdouble)),
    ("scalar float64 image, longdouble reference", image(np.float64), image(np.longdouble)),
    ("scalar longdouble image at coarser resolution, float64 reference",
     image(np.longdouble, (2, 3)), image(np.float64)),
    ("control: longdouble image SERIES, longdouble reference series",
     image(np.longdouble, (4, 6, 2), True), image(np.longdouble, (4, 6, 2), True)),
    ("control: scalar float64 image, float64 reference", image(np.float64), image(np.float64)),
]
for label, img, ref in cases:
    print("---", label)
    print("    integrate(img) =", geometry.integrate(img), " integrate(ref) =", geometry.integrate(ref))
    try:
        normalized = geometry.normalize(img, ref)
    except Exception as exc:
        print("    expected: image with the integral of the reference; observed: exception", repr(exc))
        bad = True
        continue
    a, b = geometry.integrate(normalized), geometry.integrate(ref)
    err = np.max(np.abs(a - b) / np.abs(b))
    print(f"    integrals after normalize: {a} vs {b}  (rel. deviation {float(err):.1e})")
    if err > 1e-9:
        bad = True

if bad:
    print("\nVIOLATION of C03: normalize does not return an image with the reference's integral "
          "(ValueError from darsia.weight for np.longdouble ratios).")
    sys.exit(1)
print("no violation")
sys.exit(0)
