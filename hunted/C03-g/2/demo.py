"""C03: array voxel volumes coarsened by a factor that is not a power of two carry a
single-precision bias (3e-8 per coarsened axis, up to ~1.2e-7), although everything is
float64 and the coarse voxel volume is just the sum of k native voxel volumes.

Geometry.integrate() coarsens spatially varying voxel volumes with
cv2.resize(..., INTER_AREA). OpenCV's integer-factor area kernel multiplies the (double)
block sum with `float scale = 1.f / area`, i.e. with 1/k rounded to float32. For k = 2, 4,
8, ... this is exact, for k = 3, 5, 6, 7, 10, ... every coarse voxel volume is off by the
same relative amount float32(1/k)*k - 1, so the bias does not average out: the integral of
the same piecewise constant field differs between the native and the coarser
representation by 3.0e-8 (k=3 in one axis), 6.0e-8 (k=3 in both), 8.9e-8 (k=7 in both).
Since 9e62b71 resizes axis by axis the error is incurred once per coarsened axis.
"""
import sys

import numpy as np

import darsia

TOL = 1e-9  # generous for a float64 sum of 144 .. 10^4 terms (observed elsewhere: 1e-16)
rng = np.random.default_rng(0)
bad = 0

print("factor  shape(native)  shape(data)   native integral       coarse integral       rel. diff")
for k, per_axis in [(2, "both"), (4, "both"), (3, "rows"), (3, "both"), (5, "both"),
                    (6, "both"), (7, "both"), (10, "cols")]:
    fr = k if per_axis in ("both", "rows") else 1
    fc = k if per_axis in ("both", "cols") else 1
    n, m = 4 * fr, 4 * fc
    porosity = rng.uniform(0.2, 0.4, (n, m))  # float64
    depth = rng.uniform(0.01, 0.03, (n, m))  # float64
    geometry = darsia.ExtrudedPorousGeometry(porosity, depth, 2, (n, m), dimensions=[1.5, 2.8])
    coarse = rng.uniform(0.0, 1.0, (4, 4, 2))  # series with two time steps
    native = np.repeat(np.repeat(coarse, fr, axis=0), fc, axis=1)  # same field

    exact = np.sum((porosity * depth * (1.5 / n) * (2.8 / m))[..., None] * native, axis=(0, 1))
    v_native = geometry.integrate(native)
    v_coarse = geometry.integrate(coarse)
    v_fresh = darsia.ExtrudedPorousGeometry(
        porosity, depth, 2, (n, m), dimensions=[1.5, 2.8]
    ).integrate(coarse)
    assert np.array_equal(v_fresh, v_coarse)
    assert np.allclose(v_native, exact, rtol=1e-13, atol=0)
    rel = np.max(np.abs(v_coarse - v_native) / np.abs(v_native))
    flag = "" if rel <= TOL else "   <-- VIOLATION"
    bad += rel > TOL
    print(f"{k:>3} {per_axis:<5} {str((n, m)):<13} {str(coarse.shape[:2]):<12} "
          f"{v_native[0]:<21.15g} {v_coarse[0]:<21.15g} {rel:.2e}{flag}")

# The simplest instance: a constant field handed over as a single voxel.
w = rng.uniform(0.5, 1.5, (3, 3))
g = darsia.PorousGeometry(w, 2, (3, 3), dimensions=[3.0, 3.0])  # unit voxels
one = g.integrate(np.ones((1, 1)))
print(f"\nconstant 1 on a 3x3 porous geometry: sum of the voxel volumes = {w.sum()!r},"
      f"\n   integrate(np.ones((3, 3))) = {g.integrate(np.ones((3, 3)))!r},"
      f"\n   integrate(np.ones((1, 1))) = {one!r}   (rel. diff {abs(one - w.sum()) / w.sum():.2e})")
bad += abs(one - w.sum()) > TOL * w.sum()

print("\nexplanation: float32(1/3)*3 - 1 =", float(np.float32(1.0) / np.float32(3.0)) * 3 - 1,
      "; float32(1/7)*7 - 1 =", float(np.float32(1.0) / np.float32(7.0)) * 7 - 1)
if bad:
    print(f"\n{bad} violation(s): coarser representation of the same field != native integral "
          f"(expected agreement to {TOL:g}, single precision bias observed)")
    sys.exit(1)
print("no violation")
sys.exit(0)
