"""C03: the effective voxel volume is stored in the dtype of the weight array.

WeightedGeometry.__init__ folds the weight into the voxel volume with
np.multiply(<numpy scalar>, weight). With numpy's value-based casting the *scalar* voxel
volume never promotes the array, so the effective voxel volume (and the cache derived
from it) silently takes the dtype of the user's weight array:

 (a) float32 depth / porosity maps (what cv2, skimage.img_as_float32, ... hand out):
     integrals of uint8 / uint16 / int16 / bool data are evaluated and summed in single
     precision, come back as np.float32, and Geometry.normalize() of two such images
     raises ValueError instead of returning the normalised image.
 (b) integer weights on a geometry given in integer voxel sizes (e.g. pixel units):
     the volume stays uint8 -> it wraps modulo 256 already in the constructor, the
     product with uint8 data wraps again, coarsening rounds the averaged volumes to
     integers (cv2 on uint8) or raises cv2.error (int32/int64/bool), and the value
     returned for the *same* data depends on what was integrated before.
"""
import sys
import warnings

import numpy as np

import darsia

warnings.filterwarnings("ignore")
failures = []


def check(label, ok, expected, observed):
    print(f"[{'ok  ' if ok else 'FAIL'}] {label}\n        expected: {expected}\n        observed: {observed}")
    if not ok:
        failures.append(label)


rng = np.random.default_rng(1)

# ---------------------------------------------------------------- (a) float32 weights
n, m = 40, 60
dims = [1.5, 2.8]
depth32 = rng.uniform(0.01, 0.03, (n, m)).astype(np.float32)  # float32 depth map
g = darsia.ExtrudedGeometry(depth32, 2, (n, m), dimensions=dims)
print("dtype of effective voxel volume for a float32 depth map:", g.voxel_volume.dtype)

data = rng.integers(1, 200, (n, m)).astype(np.uint8)
ref = rng.integers(1, 200, (n, m)).astype(np.uint8)
vol64 = depth32.astype(np.float64) * (dims[0] / n) * (dims[1] / m)
exact = np.sum(vol64 * data)

val = g.integrate(data)
check(
    "integrate(uint8 data) is evaluated in double precision",
    isinstance(val, np.float64) and abs(val - exact) <= 1e-9 * abs(exact),
    f"np.float64 {exact!r}",
    f"{type(val).__name__} {val!r} (rel. err {abs(float(val) - exact) / exact:.1e})",
)
val_f = g.integrate(data.astype(np.float64))
check(
    "same field as uint8 and as float64 integrates to the same value (linearity/dtype)",
    abs(float(val) - float(val_f)) <= 1e-9 * abs(exact),
    f"|diff| <= 1e-9 rel.",
    f"uint8: {float(val)!r}, float64: {float(val_f)!r}, rel. diff {abs(float(val) - float(val_f)) / exact:.1e}",
)

img = darsia.Image(data, dimensions=dims, scalar=True)
img_ref = darsia.Image(ref, dimensions=dims, scalar=True)
try:
    out = g.normalize(img, img_ref)
    a, b = g.integrate(out), g.integrate(img_ref)
    check("normalize(uint8 image, uint8 reference) equalises the integrals",
          abs(a - b) <= 1e-9 * abs(b), repr(b), repr(a))
except Exception as e:  # noqa
    check("normalize(uint8 image, uint8 reference) returns the normalised image",
          False, "an image with integral == integral(reference)", f"raises {e!r}")

# control: same geometry with the depth map in float64 -> everything is fine
g64 = darsia.ExtrudedGeometry(depth32.astype(np.float64), 2, (n, m), dimensions=dims)
out = g64.normalize(img, img_ref)
print("   control (float64 depth map): normalize ok,",
      g64.integrate(out), "==", g64.integrate(img_ref))

# ------------------------------------------- (b) integer weights, integer voxel sizes
n = 8
depth_mm = rng.integers(60, 120, (n, n)).astype(np.uint8)  # depth in mm as uint8
voxel_size = [2, 3]  # voxel size in mm, integers
coarse = rng.integers(0, 200, (n // 2, n // 2)).astype(np.uint8)
native = np.repeat(np.repeat(coarse, 2, axis=0), 2, axis=1)  # same field, native res.
exact = float(np.sum(native.astype(float) * depth_mm.astype(float)) * 6)


def fresh():
    return darsia.ExtrudedGeometry(depth_mm.copy(), 2, (n, n), voxel_size=voxel_size)


g = fresh()
print("dtype of effective voxel volume for uint8 depth and integer voxel sizes:",
      g.voxel_volume.dtype, "| max depth*6 =", int(depth_mm.max()) * 6,
      "stored max =", int(g.voxel_volume.max()))
v_native = g.integrate(native.astype(float))
check("native integral = sum(data * voxel volume * depth)",
      abs(v_native - exact) <= 1e-9 * exact, exact, v_native)

v_fresh_u8 = fresh().integrate(native)
g = fresh()
v_coarse = g.integrate(coarse.astype(float))  # same piecewise constant field, coarser
v_after = g.integrate(native)  # native again on the used object
check("coarser representation of the same field gives the native value",
      abs(v_coarse - v_native) <= 1e-9 * abs(v_native), v_native, v_coarse)
check("value for given data does not depend on the history of the geometry object",
      np.array_equal(v_after, v_fresh_u8), f"fresh object: {v_fresh_u8!r}",
      f"after one coarser call: {v_after!r}")

# pixel units, integer mask as porosity
mask = rng.integers(0, 2, (n, n)).astype(np.int64)
g = darsia.PorousGeometry(mask, 2, (n, n), voxel_size=[1, 1])
try:
    v = g.integrate(coarse.astype(float))
    ex = float(np.sum(native * mask))
    check("int64 mask porosity, voxel_size=[1, 1], coarser data", abs(v - ex) < 1e-9 * ex, ex, v)
except Exception as e:  # noqa
    check("int64 mask porosity, voxel_size=[1, 1], coarser data integrates",
          False, float(np.sum(native * mask)), f"raises {type(e).__name__}: {str(e)[:70]}...")

print()
if failures:
    print(f"{len(failures)} violation(s) of C03")
    sys.exit(1)
print("no violation")
sys.exit(0)
