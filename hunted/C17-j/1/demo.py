"""C17, second sentence: comparisons of images do not agree with the comparisons of the
raw arrays for space-time (series) images - they raise - and return an inconsistent
image for vector-valued images.

Run: cd /tmp/wt-C17-j && PYTHONPATH=/tmp/wt-C17-j/src /venv/bin/python deliver/1/demo.py
"""

import operator
import sys
import warnings

import numpy as np

warnings.simplefilter("ignore")
import darsia  # noqa: E402

rng = np.random.default_rng(1)
violations = []

OPS = [
    ("<", operator.lt),
    (">", operator.gt),
    ("<=", operator.le),
    (">=", operator.ge),
    ("==", operator.eq),
]


def check(label, a, others):
    for other_label, other_img, other_raw in others:
        for sym, op in OPS:
            expected = op(a.img, other_raw)  # the same comparison on the raw arrays
            try:
                result = op(a, other_img)
            except Exception as e:  # noqa: BLE001
                violations.append(
                    f"{label}: image {sym} {other_label}: expected bool array of shape "
                    f"{expected.shape} (raw arrays), observed {type(e).__name__}: {e}"
                )
                continue
            if not (
                isinstance(result, darsia.Image)
                and result.img.shape == expected.shape
                and np.array_equal(result.img, expected)
            ):
                violations.append(f"{label}: image {sym} {other_label}: wrong values")
                continue
            # Metadata of the result: it has to describe the array it carries.
            consistent = (
                len(result.shape)
                == result.space_dim + result.time_dim + result.range_dim
                and result.series == a.series
                and result.scalar == a.scalar
            )
            if not consistent:
                violations.append(
                    f"{label}: image {sym} {other_label}: values fine, but the result is a "
                    f"{type(result).__name__} with scalar={result.scalar}, "
                    f"range_dim={result.range_dim}, series={result.series} carrying an "
                    f"array of shape {result.shape} (operand: scalar={a.scalar}, "
                    f"series={a.series}, shape {a.shape})"
                )


# 1. Scalar space-time image (the plain case of an image series), all documented operands:
#    another image, int, float.
a = darsia.ScalarImage(
    rng.random((4, 5, 3)), dimensions=[2.0, 3.0], series=True, time=[0.0, 1.0, 2.0]
)
b = darsia.ScalarImage(
    rng.random((4, 5, 3)), dimensions=[2.0, 3.0], series=True, time=[0.0, 1.0, 2.0]
)
snapshot = (a.img.copy(), b.img.copy())
check("scalar series", a, [("image", b, b.img), ("int 1", 1, 1), ("float 0.5", 0.5, 0.5)])
assert np.array_equal(a.img, snapshot[0]) and np.array_equal(b.img, snapshot[1])

# Reference: the arithmetic operators do work for the very same operands.
assert np.array_equal((a + b).img, a.img + b.img)
assert np.array_equal((a - b).img, a.img - b.img)
assert np.array_equal((a * 2).img, a.img * 2)

# 2. One-dimensional and three-dimensional series.
a1 = darsia.ScalarImage(
    rng.random((6, 2)), dimensions=[2.0], space_dim=1, series=True, time=[0, 1]
)
check("1d scalar series", a1, [("float 0.5", 0.5, 0.5)])
a3 = darsia.ScalarImage(
    rng.random((2, 3, 4, 2)),
    dimensions=[1.0, 2.0, 3.0],
    space_dim=3,
    series=True,
    time=[0, 1],
)
check("3d scalar series", a3, [("float 0.5", 0.5, 0.5)])

# 3. Vector-valued images (e.g. optical images): no exception, but the metadata of the
#    result contradicts its array.
o = darsia.OpticalImage(
    rng.random((4, 5, 3)).astype(np.float32), dimensions=[2.0, 3.0], color_space="RGB"
)
check("optical image", o, [("float 0.5", 0.5, 0.5)])

if violations:
    print(f"VIOLATION of C17 (second sentence) - {len(violations)} comparisons disagree:")
    shown = set()
    for v in violations:
        key = (v.split(":")[0], "observed" in v)
        if key in shown:
            continue
        shown.add(key)
        print("  -", v)
    print(f"  ... ({len(violations)} in total)")
    sys.exit(1)
print("no violation")
sys.exit(0)
