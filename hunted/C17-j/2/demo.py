"""C17, second sentence: a comparison with a numpy float (np.float64 IS a python float, e.g. the
result of np.mean / np.max / Geometry.integrate) on the LEFT of an image silently evaluates to
numpy.bool_(True) instead of the element-wise comparison.

Run: cd /tmp/wt-C17-j && PYTHONPATH=/tmp/wt-C17-j/src /venv/bin/python deliver/2/demo.py
"""

import operator
import sys
import warnings

import numpy as np

warnings.simplefilter("ignore")
import darsia  # noqa: E402

rng = np.random.default_rng(2)
img = darsia.ScalarImage(rng.random((4, 5)), dimensions=[2.0, 3.0])
raw = img.img.copy()

threshold = img.img.mean()  # what a user gets from numpy: numpy.float64
assert isinstance(threshold, float), "np.float64 is a documented scalar type (float)"

OPS = [
    ("<", operator.lt),
    (">", operator.gt),
    ("<=", operator.le),
    (">=", operator.ge),
    ("==", operator.eq),
]

violations = []
for sym, op in OPS:
    expected = op(threshold, raw)  # same comparison on the raw array
    assert expected.shape == raw.shape

    # Reference 1: the very same value as plain python float on the left is fine.
    ref = op(float(threshold), img)
    assert isinstance(ref, darsia.Image) and np.array_equal(ref.img, expected)

    observed = op(threshold, img)
    ok = isinstance(observed, darsia.Image) and np.array_equal(observed.img, expected)
    if not ok:
        violations.append(
            f"np.float64({threshold:.4f}) {sym} image: expected an image whose array equals "
            f"`np.float64 {sym} raw` ({np.count_nonzero(expected)} of {expected.size} True), "
            f"as for float({threshold:.4f}) {sym} image; observed {type(observed).__name__} "
            f"{observed!r}"
        )

# The typical use: a mask from a threshold computed with numpy.
mask = threshold < img
if not isinstance(mask, darsia.Image):
    violations.append(
        f"mask = img.img.mean() < img  ->  {mask!r} ({type(mask).__name__}) instead of a "
        f"boolean image with {np.count_nonzero(threshold < raw)} True voxels"
    )

# Multiplication with the same scalar on the left does work (and so does image > threshold).
prod = threshold * img
assert isinstance(prod, darsia.Image) and np.array_equal(prod.img, threshold * raw)
flipped = img > threshold
assert isinstance(flipped, darsia.Image) and np.array_equal(flipped.img, raw > threshold)
assert np.array_equal(img.img, raw)  # no argument is modified

if violations:
    print("VIOLATION of C17 (second sentence), comparisons with a numpy float on the left:")
    for v in violations:
        print("  -", v)
    sys.exit(1)
print("no violation")
sys.exit(0)
