"""C16 - total-variation denoising with a re-used TVD object (or a re-used warm-start
tuple) depends on earlier calls: split_bregman_tvd updates the split-Bregman
variables d0, b0 handed in through `x0` IN PLACE, so the 'initial guess' of the next
call is the final state of the previous one.
"""
import sys

import numpy as np

import darsia

rng = np.random.RandomState(0)
img = rng.rand(12, 14)
other = rng.rand(12, 14)
shape = (*img.shape, 2)


def new_tvd():
    # Documented warm start: (image, d, b); here the canonical cold start written out
    x0 = (img.copy(), np.zeros(shape), np.zeros(shape))
    return darsia.TVD(
        method="heterogeneous bregman", weight=0.1, max_num_iter=5, eps=None, x0=x0
    )


# (a) re-used TVD object ---------------------------------------------------------
fresh = new_tvd()(img)  # the call, issued first on a fresh object

tvd = new_tvd()
tvd(other)  # an earlier, independent call on the same object
used = tvd(img)  # the same call as above

dev_obj = np.max(np.abs(used - fresh))
print("TVD object  : max |result(after earlier call) - result(fresh)| =", dev_obj)

# (b) functional interface, same arguments twice -------------------------------------
x0 = (img.copy(), np.zeros(shape), np.zeros(shape))
r1 = darsia.split_bregman_tvd(img, mu=0.1, max_num_iter=5, x0=x0)
print("after 1st call: max|d0| =", np.abs(x0[1]).max(), " max|b0| =", np.abs(x0[2]).max(),
      "(both were zero arrays owned by the caller)")
r2 = darsia.split_bregman_tvd(img, mu=0.1, max_num_iter=5, x0=x0)
dev_fun = np.max(np.abs(r2 - r1))
print("function    : max |2nd result - 1st result| (same arguments)        =", dev_fun)

if dev_obj > 1e-12 or dev_fun > 1e-12:
    print("VIOLATION: expected identical results (the calls have identical arguments); "
          "observed deviations of order 1e-2 on data in [0, 1].")
    sys.exit(1)
print("no violation observed")
sys.exit(0)
