"""C16 - a multigrid solve that fails while the coefficients are being restricted
leaves the MG object with coarse-level coefficients; the next (regular) solve with the
same object and the same arguments no longer gives the result of a fresh object.

MG.base_V_Cycle saves the fine-level coefficients and restores them in a `finally`,
but `self.restrict_parameters()` - which overwrites self.mass_coeff, then
self.diffusion_coeff, then self.smoother - runs BEFORE the `try`. A failure in there
(MemoryError for large 3d coefficient arrays, KeyboardInterrupt in an interactive
session, ...) on the finest level is never undone.
"""
import sys

import numpy as np

import darsia

rng = np.random.RandomState(0)
img = rng.rand(16, 20)
mass = 0.5 + rng.rand(16, 20)
diffusion = 0.5 + rng.rand(16, 20)


def new_mg():
    return darsia.MG(
        depth=2,
        smoother_iterations=3,
        maxiter=3,
        mass_coeff=mass.copy(),
        diffusion_coeff=diffusion.copy(),
    )


# Reference: the call issued first on a fresh object
reference = new_mg()(img, img)

# History: one failing call, then the same call again
mg = new_mg()
original_take = np.take
counter = [0]


def failing_take(*args, **kwargs):
    # 2d restriction = 4 x np.take. Calls 1-4: residual, 5-8: mass_coeff,
    # 9-12: diffusion_coeff. Fail when the diffusion coefficient is restricted.
    counter[0] += 1
    if counter[0] == 9:
        raise MemoryError("injected: unable to allocate array")
    return original_take(*args, **kwargs)


np.take = failing_take
try:
    mg(img, img)
    print("unexpected: injected failure did not trigger")
except MemoryError as e:
    print("1st call failed as injected:", e)
finally:
    np.take = original_take

print("coefficient shapes after the failed call: mass", mg.mass_coeff.shape,
      "diffusion", mg.diffusion_coeff.shape, "(image:", img.shape, ")")

violation = False
try:
    second = mg(img, img)
    dev = np.max(np.abs(second - reference))
    print("2nd call returned; max deviation from fresh object:", dev)
    violation = dev > 1e-12
except Exception as e:  # noqa
    print("2nd call (no failure injected) raised:", repr(e))
    violation = True

if violation:
    print("VIOLATION: expected the 2nd call to return the same array as a fresh MG "
          "object (max deviation 0); the object kept the half-restricted coefficients "
          "of the failed call.")
    sys.exit(1)
print("no violation observed")
sys.exit(0)
