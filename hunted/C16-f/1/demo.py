"""C16 - a re-used Wasserstein distance object (direct solver, 'pressure' formulation)
returns a different distance for the same image pair than a fresh object.

Hidden state: the cached sparse matrix `self.fully_reduced_jacobian`. The first
factorisation (scipy.sparse.linalg.splu) sorts its indices in place and caches
`has_canonical_format = True` on it; the library afterwards writes the original
(unsorted) index array back, but the cached flag stays. From the second linear solve
on, SuperLU therefore sees a differently ordered matrix than in the very first solve
of the object's life. The first linear solve of a call (the Darcy initial guess) thus
differs between a fresh and a used object, and Newton's method carries the difference
into the returned distance / iteration count.
"""
import sys
import warnings

import numpy as np

import darsia

warnings.filterwarnings("ignore")


def pair(shape, rect_1, rect_2):
    meta = {"width": 1.0, "height": 1.0, "space_dim": 2, "scalar": True}
    arr_1 = np.zeros(shape)
    arr_1[rect_1[0] : rect_1[1], rect_1[2] : rect_1[3]] = 1
    arr_2 = np.zeros(shape)
    arr_2[rect_2[0] : rect_2[1], rect_2[2] : rect_2[3]] = 1
    img_1 = darsia.Image(arr_1, **meta)
    img_2 = darsia.Image(arr_2, **meta)
    geometry = darsia.Geometry(**img_1.shape_metadata())
    img_1.img /= geometry.integrate(img_1)
    img_2.img /= geometry.integrate(img_2)
    return img_1, img_2


shape = (17, 30)
A, B = pair(shape, (11, 16, 10, 13), (7, 9, 23, 25))  # the pair of interest
C, D = pair(shape, (2, 6, 3, 8), (9, 14, 20, 26))  # some other pair (earlier call)

options = {
    "linear_solver": "direct",
    "formulation": "pressure",  # the default formulation
    "num_iter": 200,
    "tol_residual": 1e-8,
    "tol_increment": 1e-5,
    "tol_distance": 1e-8,
    "mobility_mode": darsia.MobilityMode.CELL_BASED,
    "l1_mode": darsia.L1Mode.CONSTANT_CELL_PROJECTION,
    "return_info": True,
}
grid = darsia.generate_grid(A)

# Same call, issued first on a fresh object
fresh = darsia.WassersteinDistanceNewton(grid, None, dict(options))
d_fresh, info_fresh = fresh(A, B)

# Same call, issued after one earlier call on the same object
used = darsia.WassersteinDistanceNewton(grid, None, dict(options))
used(C, D)
d_used, info_used = used(A, B)

# Same call, issued twice on the same object
d_again, info_again = fresh(A, B)

rel_used = abs(d_used - d_fresh) / abs(d_fresh)
rel_again = abs(d_again - d_fresh) / abs(d_fresh)
print("W1(A,B), first call of a fresh object      :", repr(d_fresh),
      "iterations", info_fresh["number_iterations"])
print("W1(A,B), after W1(C,D) on the same object  :", repr(d_used),
      "iterations", info_used["number_iterations"])
print("W1(A,B), repeated on the first object      :", repr(d_again),
      "iterations", info_again["number_iterations"])
print("relative deviation (used vs fresh)   :", rel_used)
print("relative deviation (repeat vs fresh) :", rel_again)
m = used.fully_reduced_jacobian
really_sorted = all(
    np.all(np.diff(m.indices[m.indptr[i] : m.indptr[i + 1]]) > 0)
    for i in range(m.shape[1])
)
print("state of cached matrix after use: has_canonical_format =",
      m.has_canonical_format, ", indices really sorted =", really_sorted)

tol = 1e-9  # direct solver
if rel_used > tol or rel_again > tol:
    print(f"VIOLATION: expected identical distances (rel. tol {tol}) for the same "
          "call on a fresh and on a re-used distance object.")
    sys.exit(1)
print("no violation observed")
sys.exit(0)
