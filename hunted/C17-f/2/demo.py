"""C17 / clause 1: darsia.wasserstein_distance (distance computation) alters caller-owned
containers: per-level (list-valued) pyamg options handed in through the documented option
"amg_options" are grown in place.

Run:  cd /tmp/wt-C17-f && PYTHONPATH=/tmp/wt-C17-f/src /venv/bin/python deliver/2/demo.py
Exits 1 when the violation is observed.
"""
import copy
import sys
import warnings

import numpy as np

import darsia

warnings.filterwarnings("ignore")

# Two mass distributions with the same total mass on a 12 x 11 grid.
rng = np.random.default_rng(0)
arr_1 = rng.random((12, 11))
arr_2 = rng.random((12, 11))
arr_2 *= arr_1.sum() / arr_2.sum()
mass_1 = darsia.ScalarImage(arr_1, dimensions=[1.0, 1.0])
mass_2 = darsia.ScalarImage(arr_2, dimensions=[1.0, 1.0])

violations = 0
for method in ["newton", "bregman"]:
    for linear_solver in ["amg", "cg"]:
        # Caller-owned containers following the pyamg interface: per-level specifications
        # are given as lists (first entry: finest level, last entry: all remaining levels).
        strength = [("symmetric", {"theta": 0.0}), ("symmetric", {"theta": 0.1})]
        smooth = [("jacobi", {"omega": 4.0 / 3.0}), None]
        improve_candidates = [
            ("block_gauss_seidel", {"sweep": "symmetric", "iterations": 4}),
            None,
        ]
        options = {
            "linear_solver": linear_solver,
            "formulation": "pressure",
            "num_iter": 3,
            "linear_solver_options": {"atol": 1e-8, "rtol": 1e-8, "maxiter": 20},
            "amg_options": {
                "max_coarse": 5,
                "strength": strength,
                "smooth": smooth,
                "improve_candidates": improve_candidates,
            },
        }
        before = copy.deepcopy(options)
        rng_before = np.random.get_state()

        distance = darsia.wasserstein_distance(
            mass_1, mass_2, method=method, options=options
        )

        tag = f"wasserstein_distance(method={method!r}, linear_solver={linear_solver!r})"
        print(f"{tag} -> {distance:.6f}")
        for key in ["strength", "smooth", "improve_candidates"]:
            exp = before["amg_options"][key]
            obs = options["amg_options"][key]
            if exp != obs:
                violations += 1
                print(f"  [VIOLATION] options['amg_options'][{key!r}] changed by the call")
                print(f"      expected (as passed in), len {len(exp)}: {exp}")
                print(f"      observed (after call)  , len {len(obs)}: {obs}")
        # images untouched? (they are - only the option containers are altered)
        assert np.array_equal(mass_1.img, arr_1) and np.array_equal(mass_2.img, arr_2)

print()
if violations:
    print(
        f"{violations} caller-owned lists were modified by a distance computation "
        "that is supposed to leave every argument exactly as it was."
    )
    sys.exit(1)
print("no violation observed")
sys.exit(0)
