"""C17 / clause 2: Image * scalar (and darsia.weight(img, scalar)) do not agree with the
same arithmetic on the raw arrays for the documented scalar types (float, int) as soon as
the product needs another dtype than the image has.

Run:  cd /tmp/wt-C17-f && PYTHONPATH=/tmp/wt-C17-f/src /venv/bin/python deliver/1/demo.py
Exits 1 when the violation is observed.
"""
import sys
import warnings

import numpy as np

import darsia

warnings.filterwarnings("ignore")

rng = np.random.default_rng(0)
violations = []


def compare(label, arr, scalar, call):
    """Compare library result with the raw-array product arr * scalar."""
    expected = arr * scalar  # the 'same arithmetic on the raw arrays'
    try:
        observed = call().img
    except Exception as e:  # noqa: BLE001
        violations.append(label)
        print(f"[VIOLATION] {label}")
        print(f"    expected (raw arrays): dtype {expected.dtype}, first values {expected.ravel()[:4]}")
        print(f"    observed (library)   : {type(e).__name__}: {str(e)[:110]}")
        return
    if observed.shape != expected.shape or not np.array_equal(
        observed.astype(np.float64), expected.astype(np.float64), equal_nan=True
    ):
        violations.append(label)
        print(f"[VIOLATION] {label}")
        print(f"    expected (raw arrays): dtype {expected.dtype}, first values {expected.ravel()[:4]}")
        print(f"    observed (library)   : dtype {observed.dtype}, first values {observed.ravel()[:4]}")
    else:
        print(f"[ok]        {label}")


# 1. The bread-and-butter case: an 8-bit photograph scaled by a float.
rgb = rng.integers(0, 256, (4, 5, 3)).astype(np.uint8)
photo = darsia.OpticalImage(rgb.copy(), dimensions=[1.0, 2.0], color_space="RGB")
compare("uint8 OpticalImage * 0.5 (float scalar)", rgb, 0.5, lambda: photo * 0.5)
compare("0.5 * uint8 OpticalImage (__rmul__)", rgb, 0.5, lambda: 0.5 * photo)
compare("darsia.weight(uint8 OpticalImage, 0.5)", rgb, 0.5, lambda: darsia.weight(photo, 0.5))

# 2. Integer-valued scalar data (e.g. labels / counts) scaled by a float.
lab = rng.integers(0, 100, (4, 5)).astype(np.int64)
labels = darsia.ScalarImage(lab.copy(), dimensions=[1.0, 2.0])
compare("int64 ScalarImage * 2.5 (float scalar)", lab, 2.5, lambda: labels * 2.5)

# 3. int scalar: no exception, but silently different numbers (wrap-around in the
#    dtype of the image, whereas the raw product is computed in a sufficient dtype).
gray = rng.integers(1, 256, (4, 5)).astype(np.uint8)
gray_img = darsia.ScalarImage(gray.copy(), dimensions=[1.0, 2.0])
compare("uint8 ScalarImage * 300 (int scalar)", gray, 300, lambda: gray_img * 300)
compare("darsia.weight(uint8 ScalarImage, 300)", gray, 300, lambda: darsia.weight(gray_img, 300))

# 4. bool images (masks) times an int.
msk = rng.random((4, 5)) > 0.5
mask_img = darsia.ScalarImage(msk.copy(), dimensions=[1.0, 2.0])
compare("bool ScalarImage * 2 (int scalar)", msk, 2, lambda: mask_img * 2)

# 5. float32 image times a float that does not fit float32 (finite result expected).
f32 = (rng.random((4, 5)) + 0.5).astype(np.float32)
f32_img = darsia.ScalarImage(f32.copy(), dimensions=[1.0, 2.0])
compare("float32 ScalarImage * 1e40 (float scalar)", f32, 1e40, lambda: f32_img * 1e40)

# Sanity: a case which is fine (float64 image) - to show the check itself is fair.
f64 = rng.random((4, 5))
f64_img = darsia.ScalarImage(f64.copy(), dimensions=[1.0, 2.0])
compare("float64 ScalarImage * 0.5 (control)", f64, 0.5, lambda: f64_img * 0.5)

print()
if violations:
    print(f"{len(violations)} call forms disagree with the arithmetic on the raw arrays.")
    sys.exit(1)
print("no violation observed")
sys.exit(0)
