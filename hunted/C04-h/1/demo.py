"""C04 - the pressure is not pinned at the documented reference (centre) cell.

The solvers pin the pressure with a Lagrange multiplier "in the center of the domain"
(wasserstein.py, _setup_dof_management docstring / _setup_discretization). The flat
index of the centre cell is computed with np.ravel_multi_index(center, shape), i.e. in
C order, while every flat cell quantity of the grid (cell_index, mass_diff, pressure,
transport density) is numbered in Fortran order. On every grid whose centre cell has
different C and F flat indices (all non-square 2-D grids, all 3-D grids that are not
cubes) the constraint row therefore hits an unrelated cell - here a boundary cell - and
the returned pressure is NOT zero at the reference cell.
"""
import sys
import warnings

import numpy as np

import darsia

warnings.filterwarnings("ignore")


def image(arr, voxel):
    dims = [arr.shape[i] * voxel[i] for i in range(arr.ndim)]
    return darsia.Image(arr, dimensions=dims, space_dim=arr.ndim, scalar=True, series=False)


rng = np.random.default_rng(0)
violations = 0
for shape, voxel in [((6, 5), [1.0, 1.0]), ((3, 8), [1.0, 2.0]), ((4, 6, 3), [1.0, 1.0, 1.0])]:
    m1 = rng.random(shape)
    m2 = rng.random(shape)
    m2 *= m1.sum() / m2.sum()  # equal mass
    img_1, img_2 = image(m1, voxel), image(m2, voxel)
    center = tuple(np.array(shape) // 2)
    for method in ["newton", "bregman"]:
        for formulation in ["pressure", "full", "flux_reduced"]:
            options = {"formulation": formulation, "num_iter": 20, "return_info": True}
            distance, info = darsia.wasserstein_distance(
                img_1, img_2, method=method, options=options
            )
            pressure = info["pressure"]
            pinned = [tuple(int(i) for i in idx) for idx in np.argwhere(np.abs(pressure) < 1e-12)]
            spread = pressure.max() - pressure.min()
            ok = abs(pressure[center]) <= 1e-12 * max(spread, 1.0)
            print(
                f"grid {shape} {method:8s} {formulation:13s}: reference (centre) cell "
                f"{center}: expected pressure 0, observed {pressure[center]: .6e} "
                f"(pressure range {spread:.3e}); pressure vanishes at cell(s) {pinned}"
            )
            if not ok:
                violations += 1

if violations:
    print(
        f"\nVIOLATION: in {violations} runs the returned pressure is not pinned at the "
        "reference cell in the centre of the grid; the constraint acts on the cell whose "
        "Fortran-ordered flat index equals the C-ordered flat index of the centre."
    )
    sys.exit(1)
print("no violation")
sys.exit(0)
