"""C04 - a linear solve that breaks down *without raising* (returns non-finite values)
is not recognised as a failed inner step: the result does not describe the last valid
iterate but consists of NaN.

Fault model: the inner linear solve of iteration k fails. Two flavours of the same fault
are injected at the same place (the solve of the factorisation used in iteration k):
  (a) the solve raises               -> handled: last valid iterate, converged=False
  (b) the solve returns NaN (what SuperLU / scipy.cg / pyamg do on a numerical
      breakdown - they do not raise) -> NOT handled: NaN distance, NaN flux, NaN pressure
"""
import sys
import warnings

import numpy as np
import scipy.sparse.linalg as spla

import darsia
from darsia.measure import wasserstein as W

warnings.filterwarnings("ignore")

shape, voxel = (8, 6), [1.0, 1.0]
rng = np.random.default_rng(7)
m1 = rng.random(shape)
m2 = rng.random(shape)
m2 *= m1.sum() / m2.sum()


def image(arr):
    dims = [arr.shape[i] * voxel[i] for i in range(arr.ndim)]
    return darsia.Image(arr, dimensions=dims, space_dim=arr.ndim, scalar=True, series=False)


img_1, img_2 = image(m1), image(m2)
real_splu = spla.splu


class FaultyLU:
    """LU factorisation whose k-th solve (counted over the whole run) fails."""

    def __init__(self, lu, mode, count, fail_at):
        self.lu, self.mode, self.count, self.fail_at = lu, mode, count, fail_at

    def solve(self, rhs, *args, **kwargs):
        n = self.count["n"]
        self.count["n"] += 1
        solution = self.lu.solve(rhs, *args, **kwargs)
        if n != self.fail_at:
            return solution
        if self.mode == "raise":
            raise RuntimeError("injected failure of the linear solve")
        return np.full_like(solution, np.nan)


def run(cls, k, mode):
    """Fail the linear solve of iteration k (solve number k + 1 of the run; number 0 is
    the initial Darcy solve, which defines the first iterate)."""
    count = {"n": 0}

    def splu(matrix, *args, **kwargs):
        return FaultyLU(real_splu(matrix, *args, **kwargs), mode, count, k + 1)

    W.sps.linalg.splu = splu
    try:
        options = {
            "num_iter": 12,
            "tol_increment": 1e-12,
            "tol_distance": 1e-14,
            "tol_residual": 1e-12,
            "return_info": True,
        }
        solver = cls(darsia.generate_grid(img_1), None, options)
        captured = {}
        inner = solver._solve

        def _solve(rhs):
            out = inner(rhs)
            captured["solution"] = out[1].copy()
            return out

        solver._solve = _solve
        distance, info = solver(img_1, img_2)
    finally:
        W.sps.linalg.splu = real_splu
    flux = captured["solution"][solver.flux_slice]
    f = solver.mass_matrix_cells.dot(np.ravel(m2 - m1, "F"))
    imbalance = np.abs(solver.div.dot(flux) - f).max() / np.abs(f).max()
    return float(distance), info["converged"], flux, imbalance, info["pressure"]


violations = 0
for cls in [darsia.WassersteinDistanceNewton, darsia.WassersteinDistanceBregman]:
    for k in [0, 1, 3]:
        d_ref, c_ref, u_ref, mb_ref, p_ref = run(cls, k, "raise")
        d_nan, c_nan, u_nan, mb_nan, p_nan = run(cls, k, "nan")
        print(f"{cls.__name__}, linear solve of iteration {k} fails")
        print(
            f"  (a) by raising      : distance {d_ref:.12g}, converged {c_ref}, "
            f"mass imbalance {mb_ref:.1e}, flux finite {np.all(np.isfinite(u_ref))}"
        )
        print(
            f"  (b) by returning NaN: distance {d_nan}, converged {c_nan}, "
            f"mass imbalance {mb_nan}, flux finite {np.all(np.isfinite(u_nan))}, "
            f"pressure finite {np.all(np.isfinite(p_nan))}"
        )
        same = (
            np.all(np.isfinite(u_nan))
            and np.allclose(u_nan, u_ref, rtol=1e-9, atol=0)
            and abs(d_nan - d_ref) <= 1e-9 * abs(d_ref)
        )
        if not same:
            violations += 1
            print(
                "      expected: the last valid iterate as in (a) (flagged non-converged);"
                " observed: NaN result"
            )

if violations:
    print(
        f"\nVIOLATION: in {violations} of 6 fault positions the result after a failed inner "
        "step does not describe the last valid iterate (distance, flux and pressure are NaN)."
    )
    sys.exit(1)
print("no violation")
sys.exit(0)
