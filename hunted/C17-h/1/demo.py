"""C17 - distance computation alters numpy's global random state (AMG/CG back-end with a
relaxation-type coarse solver, e.g. amg_options={"coarse_solver": "jacobi"}).

The repairs 87df840 / cb59d0a save / seed / restore numpy's global random state around the
*construction* of the pyamg hierarchy only.  pyamg sets up relaxation-type coarse solvers
('jacobi', 'block_jacobi', 'richardson', 'chebyshev', 'jacobi_ne') lazily, in the *solve*
phase (first coarse-grid solve of every hierarchy), and estimates a spectral radius from a
np.random.rand start vector there - outside the protected section.

Run:  cd /tmp/wt-C17-h && PYTHONPATH=/tmp/wt-C17-h/src /venv/bin/python deliver/1/demo.py
Exits 1 when the violation is observed.
"""
import sys
import warnings

import numpy as np

import darsia

warnings.simplefilter("ignore")


def rng_fingerprint():
    s = np.random.get_state()
    return (s[0], s[1].tobytes(), s[2], s[3], s[4])


# Two mass distributions with the same total mass on a 12 x 10 grid
local = np.random.RandomState(0)
a = local.rand(12, 10)
b = local.rand(12, 10)
b *= a.sum() / b.sum()
mass_1 = darsia.ScalarImage(a, dimensions=[1.2, 1.0])
mass_2 = darsia.ScalarImage(b, dimensions=[1.2, 1.0])

violations = []
for method in ["newton", "bregman"]:
    for linear_solver in ["amg", "cg"]:
        for coarse_solver in [
            "pinv",  # reference: darsia's default kind of coarse solver - no change
            "jacobi",
            "block_jacobi",
            "richardson",
            "chebyshev",
            "jacobi_ne",
            ("jacobi", {"iterations": 20}),
        ]:
            options = {
                "num_iter": 5,
                "linear_solver": linear_solver,
                "formulation": "pressure",
                "amg_options": {"coarse_solver": coarse_solver, "max_coarse": 10},
            }
            np.random.seed(2024)
            before = rng_fingerprint()
            distance = darsia.wasserstein_distance(
                mass_1, mass_2, method=method, options=options
            )
            after = rng_fingerprint()
            next_draw = np.random.rand()
            np.random.seed(2024)
            expected_draw = np.random.rand()
            changed = before != after
            print(
                f"{method:8s} {linear_solver:4s} coarse_solver={str(coarse_solver):36s}"
                f" distance={distance:.6e}  global RNG state "
                + ("CHANGED" if changed else "unchanged")
                + f"  (next np.random.rand(): expected {expected_draw:.6f}, observed {next_draw:.6f})"
            )
            if changed:
                violations.append((method, linear_solver, coarse_solver))

print()
if violations:
    print(
        f"VIOLATION (C17, 'do not alter global random state'): {len(violations)} "
        "configurations of darsia.wasserstein_distance returned normally but left "
        "numpy's global random state different from the state before the call."
    )
    print("expected: np.random.get_state() after the call == before the call")
    print("observed: state advanced (random numbers drawn by pyamg in the solve phase)")
    sys.exit(1)
print("no violation observed")
sys.exit(0)
