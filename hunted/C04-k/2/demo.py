"""C04 - Newton: `converged=True` is decided on the residual of the iterate BEFORE the last
update; the iterate that is returned (after one more Newton step and the Anderson mixing) is
never checked.  With Anderson acceleration the returned iterate can violate the residual
criterion by far (here 41 x tol; its residual is the largest since the initial guess), and
the run is still reported converged.

Run:  cd /tmp/wt-C04-k && PYTHONPATH=/tmp/wt-C04-k/src /venv/bin/python deliver/2/demo.py
Exits 1 when the violation is observed.
"""
import sys
import warnings

import numpy as np

import darsia

warnings.filterwarnings("ignore")

shape = (7, 2)
voxel = [2.0, 0.25]
m1 = np.array(
    [
        [0.3894868303148111, 0.3996467183591207],
        [0.705809538378626, 0.7877201847344714],
        [0.11573204106823654, 0.32476751349705324],
        [0.05523797953247733, 0.23490025466805375],
        [0.7337377647369177, 0.9368067038989965],
        [0.9803345746379707, 0.06815410952768552],
        [0.4019081435882381, 0.8724387613255707],
    ]
)
m2 = np.array(
    [
        [0.5653646660490447, 0.3914403791415278],
        [0.8762587809336699, 0.9680606661035275],
        [0.16344123958539683, 0.5792359498962076],
        [0.16488370037194133, 0.20183323658090307],
        [0.5943369288690962, 0.2831194741986551],
        [0.9016544047950311, 0.4092459103321377],
        [0.20304176325301254, 0.7047640181580781],
    ]
)
assert abs(m1.sum() - m2.sum()) < 1e-14  # equal mass


def image(arr):
    dims = [voxel[i] * arr.shape[i] for i in range(arr.ndim)]
    return darsia.Image(arr, space_dim=arr.ndim, dimensions=dims, scalar=True)


tol = 1e-2
options = {
    "num_iter": 200,
    "tol_residual": tol,  # the only finite criterion (the others keep their defaults)
    "aa_depth": 3,
    "mobility_mode": darsia.MobilityMode.FACE_BASED,
    "return_info": True,
}
grid = darsia.Grid(shape, voxel)
solver = darsia.WassersteinDistanceNewton(grid, None, options)

# capture the flat solution [flux | pressure | multiplier] that is returned
captured = {}
inner = solver._solve


def capture(flat_mass_diff):
    distance, solution, info = inner(flat_mass_diff)
    captured["solution"] = solution.copy()
    captured["f"] = flat_mass_diff.copy()
    return distance, solution, info


solver._solve = capture
distance, info = solver(image(m1), image(m2))

history = np.array(info["convergence_history"]["residual"])
rhs = np.concatenate(
    [
        np.zeros(grid.num_faces),
        solver.mass_matrix_cells.dot(captured["f"]),
        np.zeros(1),
    ]
)
# the library's own residual (optimality conditions), evaluated for the returned iterate
returned_residual = np.linalg.norm(solver.residual(rhs, captured["solution"]), 2)

print("converged              :", info["converged"])
print("number_iterations      :", info["number_iterations"])
print("distance               :", distance)
print("residual history / r0  :", history / history[0])
print("tol_residual           :", tol)
print("residual of the RETURNED iterate / r0 :", returned_residual / history[0])

violated = info["converged"] and not (returned_residual < tol * history[0])
if violated:
    print(
        f"\nVIOLATION: expected converged=True only if the result meets tol_residual "
        f"(residual < {tol} * r0); observed converged=True for a returned iterate with "
        f"residual {returned_residual / history[0]:.3f} * r0 = "
        f"{returned_residual / history[0] / tol:.1f} x the tolerance (the criterion was "
        f"met by the previous iterate only: {history[-1] / history[0]:.4f} * r0)."
    )
    sys.exit(1)
print("no violation")
sys.exit(0)
