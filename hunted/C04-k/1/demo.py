"""C04 - the variational Wasserstein solvers never compare the images with the grid they
were set up for.  Images whose shape / voxel size differ from the grid of the solver (but
have the same number of cells) are accepted silently; the result is reported converged, the
returned flux lives on a different grid than `info["mass_diff"]`, `info["src"]`,
`info["dst"]`, and it does not balance the mass difference of the images.

Run:  cd /tmp/wt-C04-k && PYTHONPATH=/tmp/wt-C04-k/src /venv/bin/python deliver/1/demo.py
Exits 1 when the violation is observed.
"""
import sys
import warnings

import numpy as np

import darsia

warnings.filterwarnings("ignore")


def net_outflow(flux_cells_shape, voxel, flat_flux):
    """Independent divergence (integrated over the cells) for a tensor grid, faces ordered
    axis by axis, column-major inside each axis (the numbering of darsia.Grid)."""
    shape = tuple(flux_cells_shape)
    dim = len(shape)
    out = np.zeros(shape)
    off = 0
    for d in range(dim):
        fs = list(shape)
        fs[d] -= 1
        n = int(np.prod(fs))
        f = flat_flux[off : off + n].reshape(fs, order="F")
        off += n
        area = np.prod(np.delete(np.asarray(voxel, dtype=float), d))
        lo = [slice(None)] * dim
        hi = [slice(None)] * dim
        lo[d] = slice(0, -1)
        hi[d] = slice(1, None)
        out[tuple(lo)] += area * f
        out[tuple(hi)] -= area * f
    return out


def image(arr, voxel):
    dims = [voxel[i] * arr.shape[i] for i in range(arr.ndim)]
    return darsia.Image(arr, space_dim=arr.ndim, dimensions=dims, scalar=True)


# Equal-mass pair on a 6 x 4 image with voxels 1 x 1: one unit of mass is moved by three
# cells along the first axis.  Exact W1 distance: 3.
shape, voxel = (6, 4), [1.0, 1.0]
m1 = np.zeros(shape)
m2 = np.zeros(shape)
m1[1, 1] = 1.0
m2[4, 1] = 1.0
src, dst = image(m1, voxel), image(m2, voxel)

violations = []
cases = [
    ("matching grid (reference)", (6, 4), [1.0, 1.0]),
    ("transposed grid", (4, 6), [1.0, 1.0]),
    ("1-D grid with 24 cells", (24,), [1.0]),
    ("3-D grid 2x3x4", (2, 3, 4), [1.0, 1.0, 1.0]),
    ("grid with other voxel size", (6, 4), [2.0, 3.0]),
]
for label, gshape, gvoxel in cases:
    for name, cls in [
        ("Newton", darsia.WassersteinDistanceNewton),
        ("Bregman", darsia.WassersteinDistanceBregman),
    ]:
        grid = darsia.Grid(gshape, gvoxel)
        options = {
            "num_iter": 400,
            "tol_residual": 1e-8,
            "tol_increment": 1e-8,
            "tol_distance": 1e-8,
            "return_info": True,
        }
        solver = cls(grid, None, options)
        captured = {}
        inner = solver._solve

        def capture(flat_mass_diff, inner=inner, captured=captured):
            distance, solution, info = inner(flat_mass_diff)
            captured["flux"] = solution[: solver.grid.num_faces].copy()
            return distance, solution, info

        solver._solve = capture
        try:
            distance, info = solver(src, dst)
        except Exception as e:  # the behaviour one would expect for a mismatch
            print(f"{label:28s} {name:8s}: raised {type(e).__name__} (fine)")
            continue
        flux = info["flux"]  # cell fluxes, shape (*grid.shape, dim)
        consistent_shapes = flux.shape[:-1] == info["mass_diff"].shape
        # mass balance with respect to the images that were handed over
        # (net outflow of every cell of the image == destination minus source mass)
        ok_balance = False
        imbalance = float("nan")
        if consistent_shapes:
            f = (m2 - m1) * np.prod(src.voxel_size)
            imbalance = np.max(
                np.abs(net_outflow(shape, src.voxel_size, captured["flux"]) - f)
            ) / np.max(np.abs(f))
            ok_balance = imbalance < 1e-9
        msg = (
            f"{label:28s} {name:8s}: distance {distance:.6f} (exact 3), converged="
            f"{info['converged']}, flux on cells {flux.shape[:-1]}, mass_diff "
            f"{info['mass_diff'].shape}, image voxel {src.voxel_size}, grid voxel "
            f"{list(grid.voxel_size)}, mass imbalance w.r.t. the images {imbalance:.2e}"
        )
        print(msg)
        if label.startswith("matching"):
            continue
        if not ok_balance:
            violations.append(msg)

if violations:
    print(
        "\nVIOLATION: expected an exception (images do not live on the grid of the "
        "solver); observed a result reported as converged whose flux / transport "
        "density / pressure live on another grid than info['mass_diff'], info['src'], "
        f"info['dst'] ({len(violations)} runs)."
    )
    sys.exit(1)
print("no violation")
sys.exit(0)
