"""C04 - scalar cell weights are squared / inverted in the dtype of the weight image.

`_compute_face_weight` evaluates `1.0 / self.cell_weights**2` (and `1.0 / self.cell_weights`)
with `self.cell_weights = weight.img` as handed over.  For integer weight images the square
wraps around (int8: w >= 12, uint8: w >= 16, int16: w >= 182, int32: w >= 46341), for float16 /
float32 weight images it over- / underflows (float16: w >= 256, float32: w >= 1.9e19 or
w <= 1e-23).  The same weights given as float64 work.

Observed: the Bregman solver raises (RuntimeError / IndexError / ValueError) instead of
returning a result, the Newton solver never performs a single iteration (returns the Darcy
guess, flagged non-converged), and where the wrap-around stays positive (uint8) the solvers
silently iterate with mobilities of other weights than the ones the reported distance is
evaluated with (distance 36 % / 58 % off the float64 run).

Run:  cd /tmp/wt-C04-k && PYTHONPATH=/tmp/wt-C04-k/src /venv/bin/python deliver/3/demo.py
Exits 1 when the violation is observed.
"""
import sys
import warnings

import numpy as np

import darsia

warnings.filterwarnings("ignore")

shape, voxel = (8, 6), [1.0, 1.0]
m1 = np.zeros(shape)
m2 = np.zeros(shape)
m1[1, 1] = 1.0
m2[6, 4] = 1.0
rng = np.random.default_rng(5)
base = rng.integers(1, 5, shape)  # 1..4


def image(arr):
    dims = [voxel[i] * arr.shape[i] for i in range(arr.ndim)]
    return darsia.Image(arr, space_dim=arr.ndim, dimensions=dims, scalar=True)


def run(method, weights):
    options = {
        "num_iter": 100,
        "tol_residual": 1e-6,
        "tol_increment": 1e-6,
        "tol_distance": 1e-8,
        "return_info": True,
    }
    return darsia.wasserstein_distance(
        image(m1), image(m2), method, weight=image(weights), options=options
    )


violations = []
cases = [
    ("int8, values 10..40", (10 * base).astype(np.int8)),
    ("int16, values 100..400", (100 * base).astype(np.int16)),
    ("int32, values 2e4..8e4", (20000 * base).astype(np.int32)),
    ("uint8, values 10..40", (10 * base).astype(np.uint8)),
    ("float16, values 100..400", (100 * base).astype(np.float16)),
    ("float32, values 1e20..4e20", (1e20 * base).astype(np.float32)),
    ("float32, values 1e-23..4e-23", (1e-23 * base).astype(np.float32)),
]
for label, weights in cases:
    reference_weights = weights.astype(np.float64)  # identical values, double precision
    for method in ["newton", "bregman"]:
        ref_distance, ref_info = run(method, reference_weights)
        try:
            distance, info = run(method, weights)
        except Exception as e:
            msg = (
                f"{label:30s} {method:8s}: float64 weights -> distance {ref_distance:.6g} "
                f"after {ref_info['number_iterations'] + 1} iterations; {weights.dtype} "
                f"weights -> raised {type(e).__name__}: {str(e)[:60]}"
            )
            print(msg)
            violations.append(msg)
            continue
        iterations = len(info["convergence_history"]["distance"])
        msg = (
            f"{label:30s} {method:8s}: float64 weights -> distance {ref_distance:.6g} after "
            f"{len(ref_info['convergence_history']['distance'])} iterations; {weights.dtype} "
            f"weights -> distance {distance:.6g} after {iterations} iterations, "
            f"converged={info['converged']}"
        )
        print(msg)
        if iterations == 0 or abs(distance - ref_distance) > 1e-3 * abs(ref_distance):
            violations.append(msg)

if violations:
    print(
        f"\nVIOLATION ({len(violations)} runs): expected the same behaviour as for the identical "
        "weights in float64 (a result describing an iterate of the weighted problem); observed "
        "exceptions (Bregman), zero completed iterations (Newton) or iterations driven by "
        "wrapped-around weights."
    )
    sys.exit(1)
print("no violation")
sys.exit(0)
