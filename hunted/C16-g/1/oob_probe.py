import numpy as np, darsia
rng = np.random.RandomState(12)
vals = rng.rand(8)
def run(before, after, shape, method):
    buf = np.zeros(10); buf[0] = before; buf[9] = after; buf[1:9] = vals
    img = buf[1:9].reshape(shape)
    assert img.flags.c_contiguous and np.array_equal(img.ravel(), vals)
    return darsia.tvd(img, method=method, weight=0.05, max_num_iter=10, eps=1e-6)
for method in ["anisotropic bregman", "isotropic bregman", "chambolle"]:
    for shape in [(8, 1), (1, 8), (4, 2)]:
        a = run(0.0, 0.0, shape, method); b = run(5.0, -3.0, shape, method); c = run(np.nan, np.nan, shape, method)
        print(method, shape, "out shape", a.shape, "diff(0 vs 5/-3)", np.abs(a - b).max(), "nan-neigh:", np.isnan(c).any())
