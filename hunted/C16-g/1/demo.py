"""C16 - darsia.tvd / darsia.TVD with the scikit-image Bregman back-ends reads memory
outside the image when an axis has a single voxel: the result depends on what earlier
calls left next to the image (and on the heap of the process), not only on the arguments.

Run:  cd /tmp/wt-C16-g && PYTHONPATH=/tmp/wt-C16-g/src /venv/bin/python deliver/1/demo.py
Exits 1 when the violation is observed (unchanged library), 0 otherwise.
"""
import subprocess
import sys
import warnings

import numpy as np

warnings.filterwarnings("ignore")
import darsia  # noqa: E402

N = 8
KW = dict(weight=0.05, max_num_iter=10, eps=1e-6)
rng = np.random.RandomState(12)
profiles = rng.rand(3, N, 1)  # three one-voxel-wide images (N x 1), values in [0, 1]


def history(method):
    """The same call tvd(frames[1]) issued first, and issued after two other calls."""
    frames = np.zeros((3, N, 1))  # caller's stack of images, C-contiguous
    frames[1] = profiles[1]
    arg_before = frames[1].copy()
    first = np.array(darsia.tvd(frames[1], method=method, **KW)).ravel()

    # Two earlier, independent calls; the caller stores their results in the stack
    frames[0] = np.reshape(darsia.tvd(profiles[0], method=method, **KW), (N, 1))
    frames[2] = np.reshape(darsia.tvd(profiles[2], method=method, **KW), (N, 1))

    assert np.array_equal(frames[1], arg_before)  # the argument is bitwise the same
    assert frames[1].flags.c_contiguous
    later = np.array(darsia.tvd(frames[1], method=method, **KW)).ravel()
    return first, later


def reorder(method):
    """Denoise the three images of a stack in place, in two different orders."""
    out = []
    for order in [(0, 1, 2), (2, 1, 0)]:
        frames = profiles.copy()
        res = {}
        for i in order:
            res[i] = np.array(darsia.tvd(frames[i], method=method, **KW)).ravel()
            frames[i] = res[i].reshape(N, 1)
        out.append(np.array([res[i] for i in range(3)]))
    return out


violated = False
for method in ["chambolle", "heterogeneous bregman", "anisotropic bregman", "isotropic bregman"]:
    first, later = history(method)
    d_hist = float(np.max(np.abs(first - later)))
    a, b = reorder(method)
    d_order = float(np.max(np.abs(a - b)))
    bad = d_hist > 1e-12 or d_order > 1e-12 or not (np.isfinite(first).all() and np.isfinite(later).all())
    print(f"method={method!r}")
    print(f"   same call, same argument values, issued first vs. after two other calls:"
          f" max|diff| = {d_hist:.3e}   (expected 0)")
    print(f"   three independent calls in order 0,1,2 vs. 2,1,0:"
          f" max|diff| = {d_order:.3e}   (expected 0)")
    if bad:
        print("   first :", np.array2string(first, precision=5))
        print("   later :", np.array2string(later, precision=5))
        print("   -> VIOLATION: result depends on data outside the argument")
        violated = True

# A row image (1 x N): the out-of-bounds read covers a whole row
row = np.zeros((3, 1, N)); row[1] = profiles[1].T
r1 = np.array(darsia.tvd(row[1], method="anisotropic bregman", **KW)).ravel()
row[0] = 7.0; row[2] = -4.0
r2 = np.array(darsia.tvd(row[1], method="anisotropic bregman", **KW)).ravel()
print(f"1 x {N} image, neighbouring memory changed: max|diff| = {np.max(np.abs(r1 - r2)):.3e} (expected 0)")
violated = violated or bool(np.max(np.abs(r1 - r2)) > 1e-12)

# Informational (not used for the exit code, depends on the allocator): the same single
# call in fresh interpreters; the library copies the strided argument to the heap.
code = (
    "import warnings; warnings.filterwarnings('ignore')\n"
    "import numpy as np, darsia\n"
    "rng = np.random.RandomState(12); big = np.zeros((16, 2)); v = big[::2, ::2]; v[...] = rng.rand(8, 1)\n"
    "r = darsia.tvd(v, method='anisotropic bregman', weight=0.05, max_num_iter=10, eps=1e-6)\n"
    "print(repr(float(np.ravel(r)[0])))\n"
)
vals = []
for _ in range(5):
    p = subprocess.run([sys.executable, "-c", code], capture_output=True, text=True)
    vals.append(p.stdout.strip())
print("fresh interpreters, identical single call, first entry of the result:", vals)

if violated:
    print("RESULT: property C16 violated (TV denoising depends on more than its arguments)")
    sys.exit(1)
print("RESULT: no violation observed")
sys.exit(0)
