"""C17 - darsia.extract_characteristic_data alters OpenCV's global random state.

extract_characteristic_data() is documented to return a new array (the characteristic
colours of the given patches). It runs cv2.kmeans with KMEANS_RANDOM_CENTERS, which
draws from OpenCV's process-global generator (cv2.theRNG): the call leaves that global
random state advanced (a caller who seeded it with cv2.setRNGSeed gets different numbers
afterwards), and - second symptom of the same cause - the returned array itself depends
on that hidden state (two identical calls return different colours).

Run:  cd /tmp/wt-C17-i && PYTHONPATH=/tmp/wt-C17-i/src /venv/bin/python deliver/2/demo.py
Exit code 1 = violation observed.
"""
import sys
import warnings

import cv2
import numpy as np

warnings.simplefilter("ignore")
import darsia  # noqa: E402


def next_draws() -> np.ndarray:
    """Next numbers of OpenCV's global generator (the only way to observe its state)."""
    x = np.zeros(6, np.float32)
    cv2.randu(x, 0, 1)
    return x.copy()


def np_state():
    s = np.random.get_state()
    return (s[0], s[1].tobytes(), s[2], s[3], s[4])


# Colour signal (float32 RGB) and the patches of the documented workflow
# (random_patches -> samples of extract_characteristic_data).
signal = np.random.RandomState(0).rand(40, 40, 3).astype(np.float32)
mask = np.ones((40, 40), dtype=bool)
patches = darsia.random_patches(mask, 8, 3)

# Reference: what the caller's generator would deliver next without the call.
cv2.setRNGSeed(7)
expected = next_draws()

# Same seed, but with the call in between.
cv2.setRNGSeed(7)
signal_before, mask_before, np_before = signal.copy(), mask.copy(), np_state()
colours_1 = darsia.extract_characteristic_data(signal, mask=mask, samples=patches, num_attempts=3)
observed = next_draws()

# Arguments and numpy's generator are fine.
assert np.array_equal(signal, signal_before) and np.array_equal(mask, mask_before)
assert np_state() == np_before

print("OpenCV global generator, next draws after cv2.setRNGSeed(7)")
print("  expected (state untouched by the call):", np.round(expected, 6))
print("  observed (after extract_characteristic_data):", np.round(observed, 6))
state_changed = not np.array_equal(expected, observed)

# Second symptom: identical call, different result (depends on the hidden global state).
colours_2 = darsia.extract_characteristic_data(signal, mask=mask, samples=patches, num_attempts=3)
print("first  call returns:\n", colours_1)
print("second call returns:\n", colours_2)
result_differs = not np.array_equal(colours_1, colours_2)

if state_changed:
    print(
        "\nVIOLATION: extract_characteristic_data altered OpenCV's global random state"
        + (" (and its own result depends on that state)." if result_differs else ".")
    )
    sys.exit(1)
print("\nno violation observed")
sys.exit(0)
