"""C17 - darsia.segment(img, verbosity=True) overwrites pixels of the caller's image.

segment() is documented to return the labeled regions as a new array / Image. With
verbosity=True (documented: "relevant quantities are plotted") and an image of dtype
uint8 - the standard type of photographs - the marker overlay that is only meant for
the plot is painted into the caller's pixel data (array argument, or Image.img).

Run:  cd /tmp/wt-C17-i && PYTHONPATH=/tmp/wt-C17-i/src /venv/bin/python deliver/1/demo.py
Exit code 1 = violation observed.
"""
import sys
import warnings

import matplotlib

matplotlib.use("Agg")  # headless: plt.show() returns immediately
import matplotlib.pyplot as plt  # noqa: E402
import numpy as np  # noqa: E402

warnings.simplefilter("ignore")
import darsia  # noqa: E402

# Two-coloured photograph (uint8, RGB) with a little noise.
rng = np.random.RandomState(0)
arr = np.zeros((60, 80, 3), np.uint8)
arr[:, :40] = [200, 30, 30]
arr[:, 40:] = [30, 30, 200]
arr += rng.randint(0, 5, arr.shape).astype(np.uint8)

options = {"markers disk radius": 2, "threshold": 10, "median disk radius": 2}
violations = 0


def report(name, before, after, rng_before, rng_after):
    global violations
    changed = (before != after).any(axis=-1)
    n = int(changed.sum())
    print(f"--- {name}")
    print(f"    expected: argument pixel data unchanged (0 of {changed.size} pixels differ)")
    print(f"    observed: {n} pixels differ", end="")
    if n:
        idx = tuple(np.argwhere(changed)[0])
        print(f"; e.g. pixel {idx}: {before[idx].tolist()} -> {after[idx].tolist()}")
        violations += 1
    else:
        print()
    assert rng_before == rng_after


def rng_state():
    s = np.random.get_state()
    return (s[0], s[1].tobytes(), s[2], s[3], s[4])


for verbosity in [False, True]:
    # (a) plain array argument
    a = arr.copy()
    before, r0 = a.copy(), rng_state()
    labels = darsia.segment(a, verbosity=verbosity, **options)
    plt.close("all")
    assert isinstance(labels, np.ndarray) and labels is not a
    report(f"segment(ndarray uint8, verbosity={verbosity})", before, a, r0, rng_state())

    # (b) darsia.Image argument
    image = darsia.OpticalImage(arr.copy(), color_space="RGB", dimensions=[0.6, 0.8])
    before, r0 = image.img.copy(), rng_state()
    labels = darsia.segment(image, verbosity=verbosity, **options)
    plt.close("all")
    assert isinstance(labels, darsia.Image) and labels is not image
    report(
        f"segment(OpticalImage uint8, verbosity={verbosity})",
        before,
        image.img,
        r0,
        rng_state(),
    )

if violations:
    print(f"\nVIOLATION: {violations} call(s) modified the pixel data of their argument.")
    sys.exit(1)
print("\nno violation observed")
sys.exit(0)
