"""C04 - AMG / CG inner solves that do NOT converge are accepted silently.

On grids with anisotropic voxels (here 32x32 cells, voxel 1 x 0.05, and 64x16 cells,
voxel 0.01 x 1) the inner AMG iteration (pyamg, default maxiter=100, tol=1e-6) and the
AMG-preconditioned CG (scipy, default maxiter=100, rtol=1e-6) stop at their iteration
limit far from their tolerance.  pyamg reports this through the residual history, scipy
through info > 0 - both signals are discarded (darsia/utils/linalg.py:16 returns
cg(...)[0]; wasserstein.py:1255 uses the iterate of pyamg as is).  The outer Newton /
Bregman loop then "converges" after three iterations with default tolerances and returns
  * a flux that violates the discrete mass balance by 2 % ... 60 % of the largest cell
    mass difference (the linear solver was asked for 1e-6),
  * a distance that is the cost of that non-transporting flux (up to a factor 2 off),
  * info["converged"] == True.
Expected by the property: mass balance to linear-solver precision, and a result flagged
non-converged if an inner step fails.  With a sufficient inner iteration limit
(linear_solver_options={"maxiter": 5000}) the very same runs are fine, which pins the
cause on the ignored non-convergence.
"""
import sys
import warnings

import numpy as np

import darsia
import darsia.utils.linalg as dlinalg
from darsia.measure.wasserstein import (
    WassersteinDistanceBregman,
    WassersteinDistanceNewton,
)

warnings.filterwarnings("ignore")

# Spy on scipy's cg as used by darsia.linalg.CG (records the discarded info flag)
cg_infos = []
_cg = dlinalg.cg


def cg_spy(A, b, **kw):
    x, info = _cg(A, b, **kw)
    cg_infos.append(info)
    return x, info


dlinalg.cg = cg_spy


def run(cls, m1, m2, voxel_size, options):
    dims = [s * v for s, v in zip(m1.shape, voxel_size)]
    kw = dict(dimensions=dims, space_dim=m1.ndim, scalar=True, series=False)
    img1, img2 = darsia.Image(m1.copy(), **kw), darsia.Image(m2.copy(), **kw)
    options = dict(options, return_info=True)
    solver = cls(darsia.generate_grid(img1), None, options)
    captured = {}
    inner = solver._solve

    def wrapped(rhs):
        out = inner(rhs)
        captured["solution"] = out[1].copy()
        return out

    solver._solve = wrapped
    cg_infos.clear()
    distance, info = solver(img1, img2)
    flat_flux = captured["solution"][solver.flux_slice]
    f = solver.mass_matrix_cells.dot(np.ravel(m2 - m1, "F"))
    imbalance = np.abs(solver.div.dot(flat_flux) - f).max() / np.abs(f).max()
    cost_gap = abs(distance - solver.l1_dissipation(flat_flux))
    inner_failed = None
    if options.get("linear_solver") == "amg":
        hist = solver.amg_residual_history  # history of the LAST inner solve
        inner_failed = f"last AMG solve: {len(hist) - 1} its, res {hist[-1] / hist[0]:.1e}"
    elif options.get("linear_solver") == "cg":
        inner_failed = f"cg info>0 (not converged) in {sum(i > 0 for i in cg_infos)} of {len(cg_infos)} solves"
    return distance, info["converged"], imbalance, cost_gap, inner_failed


rng = np.random.default_rng(2)
failures = 0
cases = [
    ((32, 32), [1.0, 0.05], "amg"),
    ((32, 32), [1.0, 0.1], "amg"),
    ((64, 16), [0.01, 1.0], "cg"),
]
for shape, voxel_size, backend in cases:
    m1 = rng.random(shape)
    m2 = rng.random(shape)
    m2 *= m1.sum() / m2.sum()
    for cls in (WassersteinDistanceNewton, WassersteinDistanceBregman):
        name = cls.__name__[19:]
        d_ref, conv_ref, imb_ref, _, _ = run(cls, m1, m2, voxel_size, {"num_iter": 30})
        d, conv, imb, gap, inner = run(
            cls, m1, m2, voxel_size, {"num_iter": 30, "linear_solver": backend}
        )
        d_ok, conv_ok, imb_ok, _, inner_ok = run(
            cls,
            m1,
            m2,
            voxel_size,
            {
                "num_iter": 30,
                "linear_solver": backend,
                "linear_solver_options": {"maxiter": 5000, "rtol": 1e-6, "atol": 1e-6}
                if backend == "amg"
                else {"maxiter": 5000},
            },
        )
        # the inner solvers were asked for 1e-6; grant 1e-4
        bad = conv and imb > 1e-4
        failures += bad
        print(
            f"{shape} voxel {voxel_size} {name:8s} {backend:3s}: distance {d:.6f} "
            f"(direct: {d_ref:.6f}), converged={conv}, mass imbalance max|div u - f|/max|f|"
            f" = {imb:.2e} (direct: {imb_ref:.1e}), |distance - cost(flux)| = {gap:.1e}; "
            f"{inner}  -> {'VIOLATION' if bad else 'ok'}"
        )
        print(
            f"      same run with inner maxiter=5000: distance {d_ok:.6f}, "
            f"converged={conv_ok}, mass imbalance {imb_ok:.2e}; {inner_ok}"
        )

if failures:
    print(
        f"\nVIOLATION ({failures} runs): expected a flux satisfying the mass balance to "
        "linear-solver precision (1e-6 requested) or a result flagged non-converged; "
        "observed converged=True with a mass imbalance of 1e-2 ... 6e-1 because the "
        "non-convergence of the inner AMG/CG solve (iteration limit hit) is ignored."
    )
    sys.exit(1)
print("no violation")
