"""C04 - the reported distance is NOT the transport cost of the returned flux.

In the default l1_mode (RAVIART_THOMAS, "exact integration of RT0 extensions into
cells") the distance is sum_cells |K| * Q(|u_h|), where Q is the quadrature rule
darsia.quadrature.gauss_reference_cell(dim, "max").  In 2-D (order 3, 4x4 points) and
3-D (order 2, 3x3x3 points) the tabulated weights are not the tensor-product Gauss
weights, so Q is not a Gauss rule at all (it does not even integrate x**2), and the
reported distance (and info["transport_density"]) is off by percents from the
transport cost  int |u_h| dx  of exactly the flux that is returned.

The demo runs the solvers through the public API, captures the flat solution by
wrapping _solve (no source hook), and integrates |u_h| of the RETURNED flux
independently (numpy Gauss-Legendre nodes, RT0 evaluation via darsia.face_to_cell):
  (a) with the tensor Gauss rule with the SAME number of points as the library's,
  (b) with a fine reference rule.
(a) and (b) agree to ~1e-4 or better; the library deviates by ~2e-2 (2-D), ~4e-3 (3-D).
In 1-D, where the tabulated rule is correct, the library agrees with (a) to round-off.
"""
import itertools
import sys
import warnings

import numpy as np

import darsia
from darsia.measure.wasserstein import (
    WassersteinDistanceBregman,
    WassersteinDistanceNewton,
)

warnings.filterwarnings("ignore")


def transport_cost(solver, flat_flux, n):
    """int |u_h| dx over the grid; tensor Gauss-Legendre rule with n points per axis."""
    x, w = np.polynomial.legendre.leggauss(n)
    x, w = (x + 1) / 2, w / 2
    grid = solver.grid
    density = np.zeros(grid.shape)
    for idx in itertools.product(range(n), repeat=grid.dim):
        pt = np.array([x[i] for i in idx])
        wt = np.prod([w[i] for i in idx])
        density += wt * np.linalg.norm(
            darsia.face_to_cell(grid, flat_flux, pt=pt), 2, axis=-1
        )
    return density.sum() * np.prod(grid.voxel_size)


def run(cls, m1, m2, voxel_size):
    dims = [s * v for s, v in zip(m1.shape, voxel_size)]
    kw = dict(dimensions=dims, space_dim=m1.ndim, scalar=True, series=False)
    img1, img2 = darsia.Image(m1.copy(), **kw), darsia.Image(m2.copy(), **kw)
    solver = cls(
        darsia.generate_grid(img1), None, {"num_iter": 30, "return_info": True}
    )
    captured = {}
    inner = solver._solve

    def wrapped(rhs):
        out = inner(rhs)
        captured["solution"] = out[1].copy()
        return out

    solver._solve = wrapped
    distance, info = solver(img1, img2)
    flat_flux = captured["solution"][solver.flux_slice]
    # mass balance of the returned flux (holds)
    f = solver.mass_matrix_cells.dot(np.ravel(m2 - m1, "F"))
    assert np.abs(solver.div.dot(flat_flux) - f).max() < 1e-10 * np.abs(f).max()
    return solver, distance, info, flat_flux


failures = 0

# --- root cause in isolation: a tensor Gauss rule with n points per axis integrates ---
# --- every monomial with exponents <= 2n-1 exactly --------------------------------
for dim, n in [(1, 5), (2, 4), (3, 3)]:
    pts, wts = darsia.quadrature.gauss_reference_cell(dim, "max")
    pts = pts.reshape(len(wts), -1)
    worst, worst_mono = 0.0, None
    for expo in itertools.product(range(2 * n), repeat=dim):
        val = float(np.sum(wts * np.prod(pts ** np.array(expo), axis=1)))
        exact = 1.0 / np.prod(np.array(expo) + 1.0)
        if abs(val - exact) > worst:
            worst, worst_mono = abs(val - exact), (expo, val, exact)
    ok = worst < 1e-12
    print(
        f"quadrature rule dim={dim} ({len(wts)} points): max error over monomials of "
        f"degree <= {2 * n - 1} per axis: {worst:.2e}"
        + ("" if ok else f"  e.g. exponents {worst_mono[0]}: {worst_mono[1]:.6f} "
           f"instead of {worst_mono[2]:.6f}")
        + f"  {'ok' if ok else 'WRONG'}"
    )
    failures += not ok

# --- the property: reported distance == transport cost of the returned flux -------
rng = np.random.default_rng(0)
cases = [
    ((12,), [1.0], 5, 40),
    ((8, 6), [1.0, 1.0], 4, 32),
    ((8, 6), [0.5, 2.0], 4, 32),
    ((5, 4, 3), [1.0, 1.0, 1.0], 3, 12),
    ((5, 4, 3), [1.0, 0.5, 2.0], 3, 12),
]
for shape, voxel_size, n_lib, n_ref in cases:
    m1 = rng.random(shape)
    m2 = rng.random(shape)
    m2 *= m1.sum() / m2.sum()
    for cls in (WassersteinDistanceNewton, WassersteinDistanceBregman):
        solver, distance, info, flat_flux = run(cls, m1, m2, voxel_size)
        same_n = transport_cost(solver, flat_flux, n_lib)
        ref = transport_cost(solver, flat_flux, n_ref)
        td = float(np.sum(info["transport_density"]) * np.prod(voxel_size))
        err_lib = abs(distance - ref) / ref
        err_gauss = abs(same_n - ref) / ref
        # A Gauss rule with the library's number of points is accurate to err_gauss;
        # grant the library 20 times that (and never less than 1e-4).
        bad = err_lib > max(20 * err_gauss, 1e-4)
        failures += bad
        print(
            f"{len(shape)}-D {shape} voxel {voxel_size} {cls.__name__[19:]:8s}: "
            f"reported distance {distance:.8f} (sum transport_density {td:.8f}) | "
            f"cost of returned flux: Gauss {n_lib}^d {same_n:.8f}, reference {ref:.8f}"
            f" | rel. error library {err_lib:.1e}, Gauss rule {err_gauss:.1e}"
            f"  {'VIOLATION' if bad else 'ok'}"
        )

if failures:
    print(
        f"\nVIOLATION ({failures} checks): expected the reported distance to be the "
        "transport cost int |u_h| of the returned flux (up to the error of a Gauss rule "
        "of the documented order); observed a deviation of 0.4 - 2 %, caused by wrong "
        "weights in darsia/utils/quadrature.py (2-D order 3, 3-D order 2)."
    )
    sys.exit(1)
print("no violation")
