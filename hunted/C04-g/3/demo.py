"""C04 - Newton, reduced formulations ("pressure" = default, "flux_reduced"): the first
Newton update is not mass conserving to solver precision; the loss grows with the
magnitude of the data (physical units) and is carried into the converged result by the
Anderson acceleration.

Newton starts from the Darcy solution for unit mobility, whose pressure is O(|u| L),
while the mobility of the first Newton system is 1/|u| and its pressure O(L).  The
solver works on increments: in the reduced formulations the right-hand side of the
pressure system is  b = r_mass - D J^-1 r_flux  with J^-1 ~ |u|/|K| and
r_flux = D^T p_darcy - W M u, i.e. |b| ~ |u|^2 >> |f|.  A backward stable solve leaves
a residual eps*|b| - and the residual of the reduced system IS the mass-balance defect
of the recovered flux update du = J^-1 (r_flux + D^T dp).  The relative mass-balance
error of the iterate is therefore ~ eps*|b|/|f| instead of eps: 1e-7 ... 1e-6 for 16-bit
image data on a few hundred/thousand cells, 1e-4 ... 1e-3 for data in large units
(values 1e8, voxel 1e3), although a direct solver is used.  The monolithic "full"
formulation (mass rows are rows of the factorised matrix) and the same images rescaled
to [0, 1] give 1e-15 / 1e-12; solving the same system for the new iterate instead of
the increment (rhs [0, f, 0]) gives 1e-12.

Scenarios (all with the direct solver, tolerance 1e-9 relative to max|f|):
 A  an injected failure of the inner linear solve at iteration index 1 -> the returned
    "last valid iterate" (flagged non-converged) violates the mass balance by ~1e-6;
 B  fault-free run with Anderson acceleration (aa_depth=3), default tolerances:
    reported converged=True, mass imbalance ~1e-7 (16-bit data) / ~5e-4 (large units),
    because the non-conserving first iterate enters the Anderson history.
"""
import sys
import warnings

import numpy as np

import darsia
from darsia.measure.wasserstein import WassersteinDistanceNewton

warnings.filterwarnings("ignore")
TOL = 1e-9


def equal_mass_16bit(shape, rng):
    """Two integer-valued 16-bit 'images' with exactly the same sum."""
    a = np.round(rng.random(shape) * 65535.0)
    b = np.round(rng.random(shape) * 65535.0).ravel()
    diff = int(a.sum() - b.sum())
    while diff != 0:
        step = 1 if diff > 0 else -1
        j = rng.integers(b.size)
        if 0 <= b[j] + step <= 65535:
            b[j] += step
            diff -= step
    b = b.reshape(shape)
    assert a.sum() == b.sum()
    return a, b


class InjectedFailure(Exception):
    pass


def run(m1, m2, voxel_size, options, fail_at=None):
    dims = [s * v for s, v in zip(m1.shape, voxel_size)]
    kw = dict(dimensions=dims, space_dim=m1.ndim, scalar=True, series=False)
    img1, img2 = darsia.Image(m1.copy(), **kw), darsia.Image(m2.copy(), **kw)
    solver = WassersteinDistanceNewton(
        darsia.generate_grid(img1), None, dict(options, return_info=True)
    )
    if fail_at is not None:
        # call -1 is the initial Darcy solve, call k the solve of Newton iteration k
        counter = {"k": -1}
        inner_ls = solver.linear_solve

        def linear_solve(*args, **kwargs):
            k = counter["k"]
            counter["k"] += 1
            if k == fail_at:
                raise InjectedFailure()
            return inner_ls(*args, **kwargs)

        solver.linear_solve = linear_solve
    captured = {}
    inner = solver._solve

    def wrapped(rhs):
        out = inner(rhs)
        captured["solution"] = out[1].copy()
        return out

    solver._solve = wrapped
    distance, info = solver(img1, img2)
    flux = captured["solution"][solver.flux_slice]
    f = solver.mass_matrix_cells.dot(np.ravel(m2 - m1, "F"))
    imbalance = np.abs(solver.div.dot(flux) - f).max() / np.abs(f).max()
    return distance, info["converged"], info["number_iterations"], imbalance


failures = 0


def report(label, res, expect_converged):
    global failures
    distance, converged, its, imbalance = res
    bad = imbalance > TOL
    failures += bad
    print(
        f"  {label:58s} converged={converged!s:5s} (iter {its}) mass imbalance "
        f"{imbalance:.1e}  {'VIOLATION (> 1e-9)' if bad else 'ok'}"
    )


rng = np.random.default_rng(2)

print("A: failure of the inner linear solve injected at Newton iteration 1 (2000 cells, 16-bit data)")
a, b = equal_mass_16bit((2000,), rng)
report("formulation 'pressure' (default)", run(a, b, [1.0], {}, fail_at=1), False)
report("formulation 'flux_reduced'", run(a, b, [1.0], {"formulation": "flux_reduced"}, fail_at=1), False)
print("  controls (must be ok):")
report("formulation 'full'", run(a, b, [1.0], {"formulation": "full"}, fail_at=1), False)
report("default, images rescaled to [0, 1]", run(a / 65535, b / 65535, [1.0], {}, fail_at=1), False)
report("default, no failure", run(a, b, [1.0], {}), True)

print("B: fault-free, Anderson acceleration aa_depth=3, default tolerances")
a, b = equal_mass_16bit((500, 4), rng)
report("500x4 cells, 16-bit data, 'pressure' (default)", run(a, b, [1.0, 1.0], {"aa_depth": 3}), True)
c = rng.random((64, 64))
d = rng.random((64, 64))
d *= c.sum() / d.sum()
report("64x64 cells, values 1e8, voxel 1e3, 'pressure'", run(1e8 * c, 1e8 * d, [1e3, 1e3], {"aa_depth": 3}), True)
print("  controls (must be ok):")
report("500x4, 16-bit, formulation 'full', aa_depth=3", run(a, b, [1.0, 1.0], {"aa_depth": 3, "formulation": "full"}), True)
report("500x4, images rescaled to [0, 1], aa_depth=3", run(a / 65535, b / 65535, [1.0, 1.0], {"aa_depth": 3}), True)
report("64x64, values 1, voxel 1, aa_depth=3", run(c, d, [1.0, 1.0], {"aa_depth": 3}), True)

if failures:
    print(
        f"\nVIOLATION ({failures} runs): expected max|div u - f| <= 1e-9 max|f| for every "
        "returned flux (direct solver); observed 1e-7 ... 5e-4 for the iterate after the "
        "first Newton update of the reduced formulations - returned as 'last valid iterate' "
        "after a failure at iteration 1, and reported converged=True with Anderson acceleration."
    )
    sys.exit(1)
print("no violation")
