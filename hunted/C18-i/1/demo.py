"""C18: a saved image forgets the `fold` of its dates (daylight-saving ambiguity).

Two photographs taken one hour apart in the night in which the clocks are set back
(Europe/Oslo, 2023-10-29: 02:30 CEST and, one hour later, 02:30 CET) carry the time
stamps datetime(2023,10,29,2,30,tzinfo=Oslo,fold=0) and (...,fold=1).  After
Image.save -> darsia.imread both slices carry the SAME instant: the second date is
one hour off, and every relative time derived from it afterwards is 3600 s off.
"""

import sys
import tempfile
import warnings
from datetime import datetime, timedelta, timezone
from pathlib import Path
from zoneinfo import ZoneInfo

import numpy as np

import darsia

warnings.filterwarnings("ignore")

oslo = ZoneInfo("Europe/Oslo")
utc = timezone.utc
first = datetime(2023, 10, 29, 2, 30, tzinfo=oslo, fold=0)  # 02:30 CEST = 00:30 UTC
second = datetime(2023, 10, 29, 2, 30, tzinfo=oslo, fold=1)  # 02:30 CET  = 01:30 UTC
assert second.astimezone(utc) - first.astimezone(utc) == timedelta(hours=1)

failures = []


def report(label, expected, observed):
    ok = expected == observed
    print(f"{'ok      ' if ok else 'MISMATCH'} {label}\n    expected: {expected}\n    observed: {observed}")
    if not ok:
        failures.append(label)


with tempfile.TemporaryDirectory() as tmp:
    # ---- single image
    image = darsia.ScalarImage(
        np.arange(12, dtype=np.uint8).reshape(3, 4), date=second, name="after the switch"
    )
    path = Path(tmp) / "single.npz"
    image.save(path, verbose=False)
    reloaded = darsia.imread(path)

    assert np.array_equal(image.img, reloaded.img)
    report("single image: date.fold", image.date.fold, reloaded.date.fold)
    report(
        "single image: instant of the date (UTC)",
        image.date.astimezone(utc).isoformat(),
        reloaded.date.astimezone(utc).isoformat(),
    )
    report("single image: date.timestamp()", image.date.timestamp(), reloaded.date.timestamp())
    report(
        "single image: reference_date (UTC)",
        image.reference_date.astimezone(utc).isoformat(),
        reloaded.reference_date.astimezone(utc).isoformat(),
    )

    # ---- series: two slices, one hour apart
    series = darsia.ScalarImage(
        np.zeros((3, 4, 2), dtype=np.float32), series=True, date=[first, second]
    )
    path = Path(tmp) / "series.npz"
    series.save(path, verbose=False)
    reloaded_series = darsia.imread(path)
    report(
        "series: instants of the dates (UTC)",
        [d.astimezone(utc).isoformat() for d in series.date],
        [d.astimezone(utc).isoformat() for d in reloaded_series.date],
    )

    # Same method on the original and on the reloaded object: relative times w.r.t. a
    # reference given in UTC.
    reference = datetime(2023, 10, 29, 0, 0, tzinfo=utc)
    series.update_reference_time(reference)
    reloaded_series.update_reference_time(reference)
    report(
        "series: relative times after update_reference_time(00:00 UTC)",
        series.time,
        reloaded_series.time,
    )

if failures:
    print(f"\nVIOLATION: {len(failures)} metadata item(s) differ after save -> imread: {failures}")
    sys.exit(1)
print("\nno violation")
sys.exit(0)
