import sys; sys.path.insert(0, "scratch")
import numpy as np, darsia, warnings, datetime
from snap import *
warnings.simplefilter("ignore")
rs = np.random.RandomState(1)
np.random.seed(7)
dt = [datetime.datetime(2020,1,1)+datetime.timedelta(hours=i) for i in range(3)]
S = darsia.Image(rs.rand(4,6,3), scalar=True, series=True, dimensions=[1.,2.], time=[0.,1.,2.])
SD = darsia.Image(rs.rand(4,6,3), scalar=True, series=True, dimensions=[1.,2.], date=list(dt))
V = darsia.Image(rs.rand(4,6,2), scalar=False, dimensions=[1.,2.])
SV = darsia.Image(rs.rand(4,6,3,2), scalar=False, series=True, dimensions=[1.,2.], time=[0.,1.,2.])
A = darsia.ScalarImage(rs.rand(4,6), dimensions=[1.,2.])
I8 = darsia.ScalarImage((rs.rand(4,6)*255).astype(np.uint8), dimensions=[1.,2.])
O = darsia.OpticalImage((rs.rand(4,6,3)*255).astype(np.uint8), dimensions=[1.,2.], color_space="RGB")
# weight with ndarray
for img, w in [(S, np.array([1.,2.,3.])), (V, np.array([2.,3.])), (SV, rs.rand(3,2)), (I8, np.array(2.0)), (A, np.array(3.0))]:
    r,e,b = check("weight nd", darsia.weight, img, w); print(type(e).__name__ if e else r.img.dtype)
# normalize
for img in [S, SD, V, SV, A, I8, O]:
    g = darsia.Geometry(**img.shape_metadata())
    ref = img.copy(); ref.img = ref.img*2
    r,e,b = check("normalize", g.normalize, img, ref); print("normalize", type(img).__name__, img.shape, repr(e) if e else type(r).__name__)
    r,e,b = check("normalize ratio", g.normalize, img, ref, True);
    pg = darsia.PorousGeometry(rs.rand(4,6), **img.shape_metadata())
    r,e,b = check("pnormalize", pg.normalize, img, ref); print("pnormalize", repr(e) if e else type(r).__name__)
    eg = darsia.ExtrudedPorousGeometry(darsia.ScalarImage(rs.rand(8,12), dimensions=[1.,2.]), 0.3, **img.shape_metadata())
    r,e,b = check("epnormalize", eg.integrate, img); print("epint", repr(e) if e else np.shape(r))
# models
lab = np.zeros((4,6), dtype=np.uint8); lab[:, 3:] = 1
sc = np.array([1.,2.]); off=np.array([0.,.1])
hm = darsia.HeterogeneousLinearModel(lab, scaling=sc, offset=off)
r,e,b = check("hetlin", hm, A.img); print(repr(e))
r,e,b = check("hetlin", hm, rs.rand(8,12)); print(repr(e))
print(sc, off)
tm = darsia.ThresholdModel(labels=lab, **{"threshold value": [0.2,0.3]})
r,e,b = check("thr", tm, A.img, A.img>0.1); print(repr(e))
thl=[0.1,0.1]; thu=[0.9,0.9]
dm = darsia.DynamicThresholdModel("otsu", thl, thu, lab)
big = rs.rand(40,60); lab2 = np.zeros((40,60), dtype=np.uint8); lab2[:, 30:] = 1
thl=np.array([0.1,0.1]); thu=np.array([0.9,0.9])
for meth in ["otsu", "tailored otsu", "tailored global min"]:
    dm = darsia.DynamicThresholdModel(meth, thl, thu, lab2)
    r,e,b = check("dyn "+meth, dm, big, big>0.05); print(meth, repr(e), dm._threshold_lower)
print(thl, thu)
k = darsia.GaussianKernel(gamma=1.) if hasattr(darsia,"GaussianKernel") else None
print([n for n in dir(darsia) if "Kernel" in n])
