import sys; sys.path.insert(0, "scratch")
import numpy as np, darsia, warnings, datetime, random, io, contextlib
from snap import *
warnings.simplefilter("ignore")
rs = np.random.RandomState(3)
D0 = datetime.datetime(2021,5,1)
def kinds():
    out = []
    for dt in [np.float64, np.float32, np.uint8, np.uint16, bool, np.int64, np.float16]:
        def arr(*s):
            a = rs.rand(*s)
            if dt in (np.uint8,): return (a*255).astype(dt)
            if dt in (np.uint16,np.int64): return (a*1000).astype(dt)
            if dt is bool: return a>0.5
            return a.astype(dt)
        out.append(("sc2", darsia.ScalarImage(arr(6,8), dimensions=np.array([1.,2.]), name="n", date=D0, reference_date=D0-datetime.timedelta(hours=1))))
        out.append(("sc2b", darsia.ScalarImage(arr(6,8), dimensions=(1.,2.), origin=[1,5], time=3)))
        out.append(("ser", darsia.ScalarImage(arr(6,8,3), series=True, dimensions=[1.,2.], time=(0.,1.,2.5))))
        out.append(("serd", darsia.Image(arr(6,8,3), scalar=True, series=True, dimensions=[1.,2.], date=[D0+datetime.timedelta(minutes=i) for i in range(3)], reference_date=D0-datetime.timedelta(hours=1))))
        out.append(("sert", darsia.Image(arr(6,8,3), scalar=True, series=True, dimensions=[1.,2.], time=np.array([0.,1.,2.]))))
        out.append(("vec", darsia.Image(arr(6,8,2), scalar=False, dimensions=[1.,2.])))
        out.append(("vser", darsia.Image(arr(6,8,3,2), scalar=False, series=True, dimensions=[1.,2.], time=[0.,1.,2.])))
        out.append(("d3", darsia.ScalarImage(arr(4,6,5), space_dim=3, dimensions=[1.,2.,3.])))
        out.append(("d1", darsia.ScalarImage(arr(7), space_dim=1, dimensions=[2.])))
        out.append(("d1s", darsia.ScalarImage(arr(7,3), space_dim=1, series=True, dimensions=[2.], time=[0,1,2])))
        if dt in (np.uint8, np.float32, np.float64, np.uint16):
            for cs in ["RGB","BGR","HSV","HLS","LAB"]:
                out.append(("opt"+cs, darsia.OpticalImage(arr(6,8,3), dimensions=[1.,2.], color_space=cs, date=D0)))
            out.append(("optser", darsia.OpticalImage(arr(6,8,3,3), series=True, dimensions=[1.,2.], color_space="RGB", time=[0.,1.,2.])))
    return out
K = kinds()
print(len(K))
def forms(x):
    sd = x.space_dim
    F = [
     ("copy", lambda: x.copy()), ("mul2", lambda: x*2), ("rmul", lambda: 2.5*x), ("multrue", lambda: x*True),
     ("add", lambda: x+x), ("sub", lambda: x-x), ("lt", lambda: x<x), ("ge", lambda: x>=0.5), ("eq", lambda: x==x),
     ("astf", lambda: x.astype(float)), ("ast8", lambda: x.astype(np.uint8)), ("astI", lambda: x.astype(darsia.Image)), ("astS", lambda: x.astype(darsia.ScalarImage)),
     ("iaf", lambda: x.img_as(float)), ("ia8", lambda: x.img_as(np.uint8)), ("ia16", lambda: x.img_as(np.uint16)), ("iab", lambda: x.img_as(bool)), ("iai", lambda: x.img_as(int)), ("iaf32", lambda: x.img_as(np.float32)),
     ("meta", lambda: x.metadata()), ("smeta", lambda: x.shape_metadata()),
     ("ts", lambda: x.time_slice(1)), ("ti", lambda: x.time_interval(slice(0,2))), ("ti2", lambda: x.time_interval(slice(None,None,2))),
     ("slice0", lambda: x.slice(1,0)), ("slicey", lambda: x.slice(0.5,"y")), ("slice1", lambda: x.slice(2, sd-1)),
     ("sub", lambda: x.subregion(tuple(slice(1,3) for _ in range(sd)))), ("subN", lambda: x.subregion(tuple(slice(None,None) for _ in range(sd)))),
     ("subV", lambda: x.subregion(darsia.make_voxel([[0]*sd,[3]*sd]))),
     ("subC", lambda: x.subregion(darsia.make_coordinate([list(x.origin), list(x.opposite_corner)]))),
     ("w2", lambda: darsia.weight(x, 2)), ("wf", lambda: darsia.weight(x, .5)), ("wI", lambda: darsia.weight(x, darsia.ScalarImage(np.ones(x.num_voxels), space_dim=sd, dimensions=x.dimensions, origin=x.origin))),
     ("wIr", lambda: darsia.weight(x, darsia.ScalarImage(np.ones([2*n for n in x.num_voxels]), space_dim=sd, dimensions=x.dimensions, origin=x.origin))),
     ("wnd", lambda: darsia.weight(x, np.ones(x.shape[sd:]))),
     ("sup", lambda: darsia.superpose([x, x])), ("stack", lambda: darsia.stack([x, x])), ("stack3", lambda: darsia.stack([x, x.copy(), x])),
     ("rs", lambda: darsia.resize(x, fx=0.5, fy=2)), ("rsS", lambda: darsia.resize(x, shape=(3,5), interpolation="inter_area")), ("rsR", lambda: darsia.resize(x, ref_image=x)),
     ("rsD", lambda: darsia.resize(x, fx=2, fy=2, dtype=np.float32)), ("RsC", lambda: darsia.Resize(**{"resize": 0.5, "resize conservative": True})(x)),
     ("eq", lambda: darsia.equalize_voxel_size(x)), ("eqv", lambda: darsia.equalize_voxel_size(x, 0.1, interpolation="inter_nearest")),
     ("ur1", lambda: darsia.uniform_refinement(x, 1)), ("ur-1", lambda: darsia.uniform_refinement(x, -1)), ("ur0", lambda: darsia.uniform_refinement(x, 0)),
     ("ra", lambda: darsia.reduce_axis(x, 0)), ("ras", lambda: darsia.reduce_axis(x, "x", mode="sum")), ("rasl", lambda: darsia.reduce_axis(x, sd-1, mode="slice", slice_idx=1)),
     ("ext", lambda: darsia.extrude_along_axis(x, 0.5, 3)),
     ("zl", lambda: darsia.zeros_like(x)), ("zlv", lambda: darsia.zeros_like(x, mode="voxels")), ("ol", lambda: darsia.ones_like(x, dtype=np.float32)), ("olv", lambda: darsia.ones_like(x, mode="voxels", dtype=bool)),
     ("clip", lambda: darsia.ClipModel(**{"min value":0.2,"max value":0.7})(x)), ("clipa", lambda: darsia.ClipModel()(x.img)),
     ("lin", lambda: darsia.LinearModel(scaling=2., offset=.1)(x.img)), ("scal", lambda: darsia.ScalingModel(scaling=2.)(x.img)),
     ("comb", lambda: darsia.CombinedModel([darsia.LinearModel(scaling=2.), darsia.ClipModel()])(x.img)),
     ("sthr", lambda: darsia.StaticThresholdModel(0.3, 0.8)(x.img)), ("sthrm", lambda: darsia.StaticThresholdModel(0.3, return_float=True)(x.img)),
     ("int", lambda: darsia.Geometry(**x.shape_metadata()).integrate(x)), ("inta", lambda: darsia.Geometry(**x.shape_metadata()).integrate(x.img)),
     ("intP", lambda: darsia.PorousGeometry(rs.rand(*x.num_voxels), **x.shape_metadata()).integrate(x)),
     ("intE", lambda: darsia.ExtrudedPorousGeometry(0.4, rs.rand(*[2*n for n in x.num_voxels]), **x.shape_metadata()).integrate(x)),
     ("norm", lambda: darsia.Geometry(**x.shape_metadata()).normalize(x, x*2)),
     ("emd", lambda: darsia.EMD()(x, x)), ("emdR", lambda: darsia.EMD(darsia.Resize(fx=0.5, fy=0.5))(x, x)), ("emdM", lambda: darsia.EMD().distance_matrix([x, x, x])),
     ("wcv", lambda: darsia.wasserstein_distance(x, x, "cv2.emd")),
    ]
    if isinstance(x, darsia.OpticalImage):
        for cs in ["RGB","BGR","HSV","HLS","LAB","rgb"]:
            F.append(("tt"+cs, lambda cs=cs: x.to_trichromatic(cs, return_image=True)))
        for k in ["gray","red","green","blue","hue","saturation","value","Gray"]:
            F.append(("tm"+k, lambda k=k: x.to_monochromatic(k)))
        F += [("grid", lambda: x.add_grid(dx=0.5, dy=0.3)), ("grid2", lambda: x.add_grid(origin=[0.1,0.2], dx=0.5, dy=0.3, color=(1,2,3), thickness=1))]
        for c in ["hsv","gray","red","green","blue","red+green","negative-key",""]:
            F.append(("mono"+c, lambda c=c: darsia.MonochromaticReduction(color=c)(x.img)))
    return F
np.random.seed(11); random.seed(4)
nv=0; ncall=0; nexc=0
for kn, x in K:
    for fn, f in forms(x):
        before = snap(x); r0 = rng()
        exc=None
        try:
            with contextlib.redirect_stdout(io.StringIO()):
                f()
        except Exception as e: exc=e; nexc+=1
        ncall+=1
        after = snap(x); r1 = rng()
        if before!=after or r0!=r1:
            nv+=1
            print("VIOLATION", kn, x.dtype, fn, diff(before, after), "RNG" if r0!=r1 else "", repr(exc)[:100])
print("calls", ncall, "exc", nexc, "viol", nv)
