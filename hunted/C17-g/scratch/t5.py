import sys, threading, warnings
import numpy as np, darsia
warnings.simplefilter("ignore")
rs = np.random.RandomState(0)
def mk():
    a = rs.rand(24,24); b = rs.rand(24,24); b *= a.sum()/b.sum()
    return darsia.ScalarImage(a, dimensions=[1.,1.]), darsia.ScalarImage(b, dimensions=[1.,1.])
pairs = [mk() for _ in range(4)]
opts = {"linear_solver":"amg","formulation":"pressure","num_iter":10,"linear_solver_options":{"atol":1e-8}}
def st():
    s = np.random.get_state(); return (s[1].tobytes(), s[2], s[3], s[4])
np.random.seed(123)
s0 = st()
# sequential: fine
for p in pairs: darsia.wasserstein_distance(p[0], p[1], "newton", options=opts)
print("sequential unchanged:", st()==s0)
sys.setswitchinterval(1e-5)
bad = 0
for rep in range(5):
    np.random.seed(123); s0 = st()
    ths = [threading.Thread(target=darsia.wasserstein_distance, args=(p[0], p[1], "newton"), kwargs={"options":opts}) for p in pairs]
    [t.start() for t in ths]; [t.join() for t in ths]
    ok = st()==s0
    bad += (not ok)
    print("threads unchanged:", ok)
