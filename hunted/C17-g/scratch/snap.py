import copy, pickle, numpy as np, darsia, datetime, random
def snap(o, depth=0):
    """Deep structural snapshot that can be compared with eq()."""
    if isinstance(o, np.ndarray):
        return ("nd", type(o).__name__, o.dtype.str, o.shape, o.tobytes() if o.dtype!=object else pickle.dumps(o.tolist()), o.flags.writeable)
    if isinstance(o, darsia.Image):
        return ("Image", type(o).__name__, {k: snap(v, depth+1) for k, v in sorted(o.__dict__.items())})
    if isinstance(o, dict):
        return ("dict", [(repr(k), snap(v, depth+1)) for k, v in o.items()])
    if isinstance(o, (list, tuple)):
        return (type(o).__name__, [snap(v, depth+1) for v in o])
    if isinstance(o, (int, float, str, bool, type(None), complex, bytes, datetime.datetime, slice, np.generic, type, np.dtype)):
        return ("v", type(o).__name__, repr(o))
    if hasattr(o, "__dict__") and depth < 6:
        return ("obj", type(o).__name__, {k: snap(v, depth+1) for k, v in sorted(o.__dict__.items())})
    return ("r", repr(type(o)))
def rng():
    s = np.random.get_state()
    return (s[0], s[1].tobytes(), s[2], s[3], s[4], random.getstate())
def diff(a, b, path=""):
    if a == b: return []
    if type(a) != type(b) or not isinstance(a, tuple): return [path]
    if a[0] in ("Image","obj") and b[0]==a[0]:
        out=[]
        for k in set(a[2])|set(b[2]):
            if a[2].get(k)!=b[2].get(k): out += diff(a[2].get(k), b[2].get(k), path+"."+k)
        return out or [path]
    if a[0]=="dict" and b[0]=="dict":
        da, db = dict(a[1]), dict(b[1]); out=[]
        for k in set(da)|set(db):
            if da.get(k)!=db.get(k): out += diff(da.get(k), db.get(k), path+"["+k+"]")
        return out or [path]
    if a[0] in ("list","tuple") and b[0]==a[0] and len(a[1])==len(b[1]):
        out=[]
        for i,(x,y) in enumerate(zip(a[1],b[1])):
            if x!=y: out+=diff(x,y,path+"[%d]"%i)
        return out
    return [path+":"+str(a)[:80]+" -> "+str(b)[:80]]
def check(name, fn, *args, **kwargs):
    before = snap((args, kwargs)); r0 = rng()
    exc=None
    try:
        res = fn(*args, **kwargs)
    except Exception as e:
        exc=e; res=None
    after = snap((args, kwargs)); r1 = rng()
    bad = []
    if before != after: bad += diff(before, after)
    if r0 != r1: bad.append("RNG")
    if bad: print("VIOLATION", name, bad, "exc=" + repr(exc) if exc else "")
    return res, exc, bad
