import sys; sys.path.insert(0, "scratch")
import numpy as np, darsia, warnings, itertools
from snap import *
warnings.simplefilter("ignore")
rs = np.random.RandomState(1)
def mk(shape, dims):
    a = rs.rand(*shape); b = rs.rand(*shape); b *= a.sum()/b.sum()
    return (darsia.Image(a, scalar=True, space_dim=len(shape), dimensions=dims),
            darsia.Image(b, scalar=True, space_dim=len(shape), dimensions=dims))
from darsia.measure.wasserstein import L1Mode, MobilityMode
np.random.seed(5)
cnt=0
for shape, dims in [((6,5),[1.,2.]), ((4,3,3),[1.,1.,2.]), ((1,6),[1.,2.]), ((7,),[3.])]:
  m1, m2 = mk(shape, dims)
  wimgs = [None, darsia.Image(0.5+rs.rand(*shape), scalar=True, space_dim=len(shape), dimensions=dims),
           darsia.Image(0.5+rs.rand(*shape, len(shape)), scalar=False, space_dim=len(shape), dimensions=dims)]
  for method in ["newton","bregman"]:
    for mob in list(MobilityMode):
      for l1 in list(L1Mode):
        for w in wimgs:
          for extra in [{}, {"lumping":False}, {"aa_depth":2,"aa_restart":3}, {"linear_solver":"amg","formulation":"pressure", "linear_solver_options":{"atol":1e-8,"maxiter":50}}, {"linear_solver":"cg","formulation":"flux-reduced"}, {"formulation":"full"}, {"bregman_update": (lambda it: it%3==0)}, {"L": 0.1, "return_status":True}, {"return_info":True, "verbose":False}]:
            opts = {"mobility_mode":mob, "l1_mode":l1, "num_iter":6, "tol_residual":1e-10, "tol_increment":1e-10,"tol_distance":1e-10}
            opts.update(extra)
            cnt+=1
            res, exc, bad = check(f"{shape} {method} {mob} {l1} w={None if w is None else w.img.shape} {extra}", darsia.wasserstein_distance, m1, m2, method, weight=w, options=opts)
print("done", cnt)
