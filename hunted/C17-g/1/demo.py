"""C17 - distance computation alters numpy's global random state when two distance
computations overlap in time (threads).

darsia.wasserstein_distance with the AMG / CG back-ends wraps the pyamg constructor in

    random_state = np.random.get_state(); np.random.seed(0)
    try: pyamg.smoothed_aggregation_solver(...)
    finally: np.random.set_state(random_state)

(src/darsia/measure/wasserstein.py:407-418 and :454-465). The save / seed / restore
sequence is not atomic. When a second computation enters the section while a first one is
inside it, the second one *saves the state seeded by the first one* and restores that
later: after all calls have returned, numpy's global random state is no longer the one
the program had before - it is a state derived from seed 0.

Part A: plain threads, unmodified library and dependencies.
Part B: the same interleaving forced deterministically by letting two threads meet
        inside the pyamg constructor (the constructor itself is executed unchanged).
Exit code 1 if the global random state after the calls differs from the one before.
"""
import sys
import threading
import warnings

import numpy as np
import pyamg

import darsia

warnings.simplefilter("ignore")


def rng_state():
    s = np.random.get_state()
    return (s[0], s[1].tobytes(), s[2], s[3], s[4])


def make_pair(seed, n=24):
    rs = np.random.RandomState(seed)
    a = rs.rand(n, n)
    b = rs.rand(n, n)
    b *= a.sum() / b.sum()
    kw = dict(dimensions=[1.0, 1.0])
    return darsia.ScalarImage(a, **kw), darsia.ScalarImage(b, **kw)


options = {
    "linear_solver": "amg",
    "formulation": "pressure",
    "num_iter": 8,
    "linear_solver_options": {"atol": 1e-8},
}


def distance(pair, out, i):
    out[i] = darsia.wasserstein_distance(pair[0], pair[1], "newton", options=options)


pairs = [make_pair(s) for s in range(4)]
violations = 0

# ---- Reference: the same calls one after the other leave the state alone
np.random.seed(2024)
before = rng_state()
out = [None] * len(pairs)
for i, p in enumerate(pairs):
    distance(p, out, i)
print("sequential calls : global random state unchanged =", rng_state() == before)
assert rng_state() == before

# ---- Part A: plain threads (default interpreter settings)
altered = 0
repetitions = 5
for rep in range(repetitions):
    np.random.seed(2024)
    before = rng_state()
    out = [None] * len(pairs)
    threads = [
        threading.Thread(target=distance, args=(p, out, i)) for i, p in enumerate(pairs)
    ]
    [t.start() for t in threads]
    [t.join() for t in threads]
    assert all(o is not None for o in out)  # all calls returned normally
    altered += rng_state() != before
print(
    f"part A (4 plain threads, {repetitions} repetitions): global random state altered "
    f"in {altered} of {repetitions} repetitions (expected 0)"
)
violations += altered

# ---- Part B: forced interleaving of two calls
original_constructor = pyamg.smoothed_aggregation_solver
arrived = {"A": threading.Event(), "B": threading.Event()}
a_done = threading.Event()
first_visit = {"A": True, "B": True}


def meeting_constructor(*args, **kwargs):
    name = threading.current_thread().name
    if name in first_visit and first_visit[name]:
        first_visit[name] = False
        arrived[name].set()
        if name == "A":
            # A has saved the user's state and seeded; wait until B is inside, too
            arrived["B"].wait()
        else:
            # B has saved the state seeded by A; leave the section after A is done
            a_done.wait()
    return original_constructor(*args, **kwargs)


pyamg.smoothed_aggregation_solver = meeting_constructor
try:
    np.random.seed(2024)
    before = rng_state()
    out = [None, None]

    def run_a():
        distance(pairs[0], out, 0)
        a_done.set()

    def run_b():
        arrived["A"].wait()
        distance(pairs[1], out, 1)

    ta = threading.Thread(target=run_a, name="A")
    tb = threading.Thread(target=run_b, name="B")
    ta.start()
    tb.start()
    ta.join()
    tb.join()
finally:
    pyamg.smoothed_aggregation_solver = original_constructor
after = rng_state()
np.random.seed(0)
seed0 = rng_state()
print("part B (two overlapping calls, both returned", out, ")")
print("   expected: global random state after the calls == state before the calls")
print("   observed: unchanged =", after == before, "| equals np.random.seed(0) state =", after == seed0)
violations += after != before

if violations:
    print("VIOLATION: distance computation altered numpy's global random state")
    sys.exit(1)
print("no violation")
sys.exit(0)
