"""C18 - imread_from_bytes returns a scrambled array for a 16-bit RGB TIFF stored with
PlanarConfiguration=2 (separate colour planes), and crashes for some tiled 8-bit TIFFs.

Run:  cd /tmp/wt-C18-g && PYTHONPATH=/tmp/wt-C18-g/src /venv/bin/python deliver/1/demo.py
Exits 1 if the violation is observed.
"""

import struct
import sys
import warnings

import numpy as np

warnings.simplefilter("ignore")

import darsia  # noqa: E402


def encode_tiff(arr: np.ndarray, planar: int) -> bytes:
    """Minimal baseline TIFF writer (little endian, uncompressed, one strip per plane).

    arr: (H, W, 3) uint8/uint16 RGB array. planar=1: chunky RGBRGB..., planar=2: RRR..GGG..BBB..
    """
    h, w, c = arr.shape
    assert c == 3
    bits = 8 * arr.dtype.itemsize
    le = arr.astype(arr.dtype.newbyteorder("<"))
    if planar == 1:
        strips = [le.tobytes()]
    else:
        strips = [np.ascontiguousarray(le[..., i]).tobytes() for i in range(3)]
    n = len(strips)

    entries = []  # (tag, type, count, value-bytes or None->offset placeholder)
    extra = b""
    n_tags = 10
    ifd_offset = 8
    data_offset = ifd_offset + 2 + n_tags * 12 + 4

    def add_extra(b: bytes) -> int:
        nonlocal extra
        off = data_offset + len(extra)
        extra += b
        if len(extra) % 2:
            extra += b"\x00"
        return off

    bps_off = add_extra(struct.pack("<3H", bits, bits, bits))
    strip_offsets = []
    for s in strips:
        strip_offsets.append(add_extra(s))
    if n == 1:
        so_val, sbc_val = strip_offsets[0], len(strips[0])
    else:
        so_val = add_extra(struct.pack("<%dI" % n, *strip_offsets))
        sbc_val = add_extra(struct.pack("<%dI" % n, *[len(s) for s in strips]))

    SHORT, LONG = 3, 4
    entries = [
        (256, LONG, 1, w),
        (257, LONG, 1, h),
        (258, SHORT, 3, bps_off),
        (259, SHORT, 1, 1),  # no compression
        (262, SHORT, 1, 2),  # RGB
        (273, LONG, n, so_val),
        (277, SHORT, 1, 3),
        (278, LONG, 1, h),
        (279, LONG, n, sbc_val),
        (284, SHORT, 1, planar),
    ]
    ifd = struct.pack("<H", len(entries))
    for tag, typ, cnt, val in entries:
        if typ == SHORT and cnt == 1:
            ifd += struct.pack("<HHIHH", tag, typ, cnt, val, 0)
        else:
            ifd += struct.pack("<HHII", tag, typ, cnt, val)
    ifd += struct.pack("<I", 0)
    return b"II*\x00" + struct.pack("<I", ifd_offset) + ifd + extra


def check(name, data, ref):
    try:
        image = darsia.imread_from_bytes(data, color_space="RGB")
    except Exception as e:  # noqa: BLE001
        print(f"  {name}: EXCEPTION {type(e).__name__}: {e}")
        return False
    same = (
        image.img.shape == ref.shape
        and image.img.dtype == ref.dtype
        and np.array_equal(image.img, ref)
    )
    n_bad = int(np.count_nonzero(image.img != ref)) if image.img.shape == ref.shape else -1
    print(
        f"  {name}: kind={type(image).__name__} shape={image.img.shape} "
        f"dtype={image.img.dtype} identical={same} (differing entries: {n_bad}/{ref.size})"
    )
    return same


rng = np.random.default_rng(0)
rgb8 = rng.integers(0, 256, (6, 8, 3)).astype(np.uint8)
rgb16 = rng.integers(0, 65536, (6, 8, 3)).astype(np.uint16)

print("controls (all expected identical, and are):")
ok_controls = all(
    [
        check("uint8  chunky  (PlanarConfiguration=1)", encode_tiff(rgb8, 1), rgb8),
        check("uint16 chunky  (PlanarConfiguration=1)", encode_tiff(rgb16, 1), rgb16),
        check("uint8  planar  (PlanarConfiguration=2)", encode_tiff(rgb8, 2), rgb8),
    ]
)

print("case under test: lossless 16-bit colour TIFF, PlanarConfiguration=2")
data = encode_tiff(rgb16, 2)
ok = check("uint16 planar  (PlanarConfiguration=2)", data, rgb16)

# Independent decoders confirm that the byte string is a valid encoding of rgb16
try:
    import io

    import tifffile

    ref = tifffile.imread(io.BytesIO(data))
    ref = np.moveaxis(ref, 0, 2) if ref.shape[0] == 3 else ref
    print("  tifffile decodes the same bytes to the original array:", np.array_equal(ref, rgb16))
    # ... and this is what tifffile itself writes for channel-first 16-bit RGB data:
    buf = io.BytesIO()
    tifffile.imwrite(buf, np.moveaxis(rgb16, 2, 0), photometric="rgb")
    ok2 = check("tifffile.imwrite((3,H,W) uint16, photometric='rgb')", buf.getvalue(), rgb16)
    ok = ok and ok2
except ImportError:
    pass

if not ok:
    image = darsia.imread_from_bytes(data, color_space="RGB")
    print()
    print("expected red channel, row 0 :", rgb16[0, :, 0])
    print("observed red channel, row 0 :", image.img[0, :, 0])
    print("  (= every third sample of the red PLANE: the planes are read as if interleaved)")
    print(
        "VIOLATION (C18): decoding a lossless 16-bit colour TIFF byte string does not yield "
        "the original array (silently scrambled pixel data, no error)."
    )
    sys.exit(1)

if not ok_controls:
    print("controls failed - demo inconclusive")
    sys.exit(2)
print("no violation observed")
sys.exit(0)
