"""C18 - the boolean image returned by comparing a colour / vector-valued image with a number
(or another image) can be saved, but the saved file cannot be read back.

Run:  cd /tmp/wt-C18-g && PYTHONPATH=/tmp/wt-C18-g/src /venv/bin/python deliver/2/demo.py
Exits 1 if the violation is observed.
"""

import sys
import tempfile
import warnings
from pathlib import Path

import numpy as np

warnings.simplefilter("ignore")

import darsia  # noqa: E402

tmp = Path(tempfile.mkdtemp())
rng = np.random.default_rng(0)
violations = 0


def round_trip(name: str, image: darsia.Image) -> None:
    global violations
    path = tmp / "image.npz"
    image.save(path, verbose=False)  # succeeds in all cases
    print(
        f"{name}: saved {type(image).__name__}, array shape {image.img.shape}, dtype "
        f"{image.img.dtype}, scalar={image.scalar}, range_dim={image.range_dim}"
    )
    try:
        reloaded = darsia.imread(path)
    except Exception as e:  # noqa: BLE001
        print(f"   expected: image with identical pixel data / dtype / metadata")
        print(f"   observed: darsia.imread raises {type(e).__name__}({e})")
        violations += 1
        return
    same = (
        type(reloaded) is type(image)
        and reloaded.img.dtype == image.img.dtype
        and np.array_equal(reloaded.img, image.img)
    )
    print(f"   reloaded {type(reloaded).__name__}, identical data: {same}")
    if not same:
        violations += 1


# control: scalar image - works
scalar = darsia.ScalarImage(rng.random((5, 7)), dimensions=[1.0, 2.0])
round_trip("control  ScalarImage < 0.5          ", scalar < 0.5)

# colour photograph
photo = darsia.OpticalImage(
    rng.integers(0, 256, (5, 7, 3)).astype(np.uint8), color_space="RGB", dimensions=[1.0, 2.0]
)
round_trip("OpticalImage < 100                  ", photo < 100)
round_trip("OpticalImage >= OpticalImage        ", photo >= photo)

# general vector-valued image (e.g. a 3d velocity field)
field = darsia.Image(rng.random((4, 5, 6, 3)), space_dim=3, scalar=False, dimensions=[1, 2, 3])
round_trip("vector darsia.Image (3d) == 0.0     ", field == 0.0)

if violations:
    print(
        f"\nVIOLATION (C18): {violations} image(s) returned by the library's own comparison "
        "operators were saved without complaint but cannot be read back."
    )
    sys.exit(1)
print("no violation observed")
sys.exit(0)
