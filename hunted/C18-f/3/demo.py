"""C18: an image loses its `original_dtype` in the npz round trip - the reloaded photograph
can no longer be written.

darsia.imread(<png/tif>) returns a float64 OpticalImage that remembers the dtype of the file
in `image.original_dtype` (uint8 / uint16). OpticalImage.write (and darsia.superpose,
Patches.blend) dispatch on that attribute. Image.save does not store it and imread_from_npz
re-derives it from the (float) array, so the reloaded image differs in that attribute and
`reloaded.write(...)` raises NotImplementedError, whereas the image that was saved writes a
lossless file with exactly the original colours.
"""

import contextlib
import io
import sys
import tempfile
import warnings
from pathlib import Path

import cv2
import numpy as np

import darsia

warnings.simplefilter("ignore")
rng = np.random.default_rng(3)
folder = Path(tempfile.mkdtemp())

violations = []
for dtype, suffix in [(np.uint8, ".png"), (np.uint16, ".tif")]:
    # A photograph on disk
    maxval = np.iinfo(dtype).max
    rgb = rng.integers(0, maxval + 1, size=(8, 9, 3)).astype(dtype)
    cv2.imwrite(str(folder / f"photo{suffix}"), rgb[..., ::-1])

    with contextlib.redirect_stdout(io.StringIO()):
        photo = darsia.imread(folder / f"photo{suffix}", dimensions=[0.8, 0.9])
        photo.save(folder / "photo.npz")
        reloaded = darsia.imread(folder / "photo.npz")

    same_pixels = reloaded.img.dtype == photo.img.dtype and np.array_equal(
        reloaded.img, photo.img
    )
    print(f"--- {dtype.__name__} photograph, read with darsia.imread, saved to npz, reloaded")
    print("pixel data / dtype identical      :", same_pixels)
    print("original_dtype  saved image       :", photo.original_dtype)
    print("original_dtype  reloaded image    :", reloaded.original_dtype)
    if photo.original_dtype != reloaded.original_dtype:
        violations.append(f"{dtype.__name__}: original_dtype changed")

    # Consequence: lossless write of the very same pixel data
    results = {}
    for tag, image in [("saved image", photo), ("reloaded image", reloaded)]:
        target = folder / f"{tag.replace(' ', '_')}{suffix}"
        try:
            with contextlib.redirect_stdout(io.StringIO()):
                image.write(target)
                back = darsia.imread(target)
            err = float(np.abs(back.img * maxval - rgb).max())
            results[tag] = f"written, read back, max colour error = {err:.1e} levels"
        except Exception as e:  # noqa
            results[tag] = f"write raised {e!r}"
        print(f"write({suffix}) of {tag:15s}:", results[tag])
    if results["saved image"] != results["reloaded image"]:
        violations.append(f"{dtype.__name__}: write() behaves differently after reload")

print()
print("expected : reloaded image equivalent to the saved one (same metadata, same behaviour)")
if violations:
    print("observed :", "; ".join(violations))
    print(
        "VIOLATION: Image.metadata()/save drop `original_dtype`; the reloaded optical image "
        "cannot be written to a lossless file any more."
    )
    sys.exit(1)
print("observed : equivalent")
sys.exit(0)
