"""C18: an optical image in the HLS or LAB colour space can be saved but not read back.

OpticalImage.to_trichromatic documents and supports the colour spaces RGB, BGR, HSV, HLS
and LAB and stores the target space in image.color_space. Image.save writes that image
without complaint, but darsia.imread of the file raises NotImplementedError, because
imread_from_npz rebuilds an OpticalImage and the OpticalImage constructor only accepts
RGB, BGR and HSV.
"""

import sys
import tempfile
import warnings
from datetime import datetime
from pathlib import Path

import numpy as np

import darsia

warnings.simplefilter("ignore")

rng = np.random.default_rng(0)
folder = Path(tempfile.mkdtemp())
photo = darsia.OpticalImage(
    rng.integers(0, 256, size=(6, 7, 3)).astype(np.uint8),
    color_space="RGB",
    dimensions=[0.6, 0.7],
    date=datetime(2023, 5, 4, 12, 0, 0),
    name="photo",
)

failures = []
for dtype_name, source in [("uint8", photo), ("float64", photo.img_as(float))]:
    for color_space in ["RGB", "BGR", "HSV", "HLS", "LAB"]:
        # (a) converted copy, (b) in-place conversion - both public, documented API
        converted = source.to_trichromatic(color_space, return_image=True)
        inplace = source.copy()
        inplace.to_trichromatic(color_space)
        variants = [("return_image=True", converted)]
        if dtype_name == "uint8":
            # NOTE: for float64 data the in-place variant is (separately) a no-op, because
            # to_trichromatic rebinds `self` to a float32 copy; not the subject here.
            variants.append(("in place", inplace))
        for how, image in variants:
            assert image.color_space == color_space
            path = folder / f"{dtype_name}_{color_space}.npz"
            image.save(path, verbose=False)  # succeeds for all colour spaces
            try:
                reloaded = darsia.imread(path)
                ok = (
                    type(reloaded) is type(image)
                    and reloaded.color_space == image.color_space
                    and reloaded.img.dtype == image.img.dtype
                    and np.array_equal(reloaded.img, image.img)
                )
                status = "identical" if ok else "DIFFERENT"
                if not ok:
                    failures.append((dtype_name, color_space, how, status))
            except Exception as e:  # noqa
                status = f"imread raised {e!r}"
                failures.append((dtype_name, color_space, how, status))
            print(f"{dtype_name:8s} {color_space} ({how:17s}): save ok, reload -> {status}")

print()
print("expected : every saved image reloads to identical pixel data, dtype and metadata")
if failures:
    print(f"observed : {len(failures)} saved images cannot be read back:")
    for f in failures:
        print("   ", f)
    print(
        "VIOLATION: Image.save accepts an OpticalImage whose color_space is HLS/LAB (as "
        "produced by to_trichromatic), darsia.imread of that file raises."
    )
    sys.exit(1)
print("observed : all reloaded identically")
sys.exit(0)
