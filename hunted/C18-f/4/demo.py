"""C18: a saved ScalarImage does not reload as a ScalarImage.

imread_from_npz restores the class only for optical images (presence of 'color_space' in
the stored metadata); every other image is rebuilt as a plain darsia.Image. A ScalarImage
(returned by imread_from_bytes for grey data, by the DICOM / VTU readers, by
OpticalImage.to_monochromatic, ...) therefore comes back as a different kind of object:
ScalarImage-only API (write) is gone and darsia.superpose refuses to combine it with the
image it was saved from.
"""

import contextlib
import io
import sys
import tempfile
import warnings
from pathlib import Path

import cv2
import numpy as np

import darsia

warnings.simplefilter("ignore")
rng = np.random.default_rng(5)
folder = Path(tempfile.mkdtemp())

# A grey 16-bit image decoded from a lossless byte string -> ScalarImage (matching kind)
grey = rng.integers(0, 65536, size=(6, 7)).astype(np.uint16)
scalar = darsia.imread_from_bytes(
    cv2.imencode(".png", grey)[1].tobytes(), dimensions=[0.6, 0.7], name="grey"
)
scalar.save(folder / "scalar.npz", verbose=False)
reloaded = darsia.imread(folder / "scalar.npz")

same_data = reloaded.img.dtype == scalar.img.dtype and np.array_equal(
    reloaded.img, scalar.img
)
print("saved    :", type(scalar).__name__)
print("reloaded :", type(reloaded).__name__)
print("pixel data / dtype identical:", same_data)

problems = []
if type(reloaded) is not type(scalar):
    problems.append(
        f"kind changed: {type(scalar).__name__} -> {type(reloaded).__name__}"
    )

for tag, image in [("saved", scalar), ("reloaded", reloaded)]:
    try:
        with contextlib.redirect_stdout(io.StringIO()):
            image.write(folder / f"{tag}.png")
        print(f"{tag:8s}.write('x.png') : ok")
    except Exception as e:  # noqa
        print(f"{tag:8s}.write('x.png') : raised {e!r}")
        problems.append(f"{tag}.write raised {type(e).__name__}")

for tag, pair in [("saved+saved", [scalar, scalar.copy()]), ("saved+reloaded", [scalar, reloaded])]:
    try:
        darsia.superpose(pair)
        print(f"superpose({tag:14s}) : ok")
    except Exception as e:  # noqa
        print(f"superpose({tag:14s}) : raised {type(e).__name__}")
        problems.append(f"superpose({tag}) raised {type(e).__name__}")

print()
print("expected : the reloaded object is the same kind of image (ScalarImage) as the saved one")
if problems:
    print("observed :", "; ".join(problems))
    print("VIOLATION: imread_from_npz rebuilds ScalarImage objects as plain Image.")
    sys.exit(1)
print("observed : same kind")
sys.exit(0)
