"""C18: a saved ColorCorrection reloaded through darsia.read_correction does not
produce the output of the correction it was saved from.

ColorCorrection.correct_array extracts the swatch colours of the colour checker with
cv2.kmeans(..., cv2.KMEANS_RANDOM_CENTERS), which draws from OpenCV's hidden global
(per-thread) random number generator. Whatever has consumed that generator before -
the constructor of the correction itself when the reference is an image, an earlier
call, another process history - changes the output. The reloaded correction (same
swatches, same config) therefore returns a different image than the original one.
"""

import subprocess
import sys
import tempfile
import warnings
from pathlib import Path

import cv2
import numpy as np

import darsia

warnings.simplefilter("ignore")


def synthetic_photo(seed: int = 1) -> tuple[np.ndarray, np.ndarray]:
    """Noisy photograph (float32 RGB) containing a classic colour checker."""
    rng = np.random.default_rng(seed)
    ref = darsia.ColorCheckerAfter2014().swatches_rgb
    img = np.full((400, 600, 3), 0.3, np.float32)
    checker = np.zeros((178, 273, 3), np.float32) + 0.05
    scale = 273 / 500
    for i, r in enumerate([12, 93, 175, 255]):
        for j, c in enumerate([12, 95, 177, 260, 344, 427]):
            r0, c0, s = int(r * scale), int(c * scale), int(50 * scale)
            # camera with a colour cast: 0.8 * reference + 0.05
            checker[r0 : r0 + s + 1, c0 : c0 + s + 1] = np.clip(
                0.8 * ref[i, j] + 0.05, 0, 1
            )
    img[50:228, 60:333] = checker
    img += rng.normal(0, 0.01, img.shape).astype(np.float32)  # sensor noise
    roi = np.array([[50, 60], [228, 60], [228, 333], [50, 333]])
    return np.clip(img, 0, 1), roi


def build(img: np.ndarray, roi: np.ndarray) -> darsia.ColorCorrection:
    # Reference colours taken from a baseline photograph (documented option).
    baseline = darsia.OpticalImage(img.copy(), color_space="RGB")
    return darsia.ColorCorrection(base=baseline, config={"roi": roi})


if len(sys.argv) == 3 and sys.argv[1] == "--child":
    # Fresh process: reload the stored correction and apply it to the same image.
    folder = Path(sys.argv[2])
    img, _ = synthetic_photo()
    reloaded = darsia.read_correction(folder / "color.npz")
    np.save(folder / "reloaded_output.npy", reloaded(img))
    sys.exit(0)

folder = Path(tempfile.mkdtemp())
img, roi = synthetic_photo()

# ---- Session 1: set up, apply, save
correction = build(img, roi)
original_output = correction(img)
correction.save(folder / "color.npz")

# ---- (a) same session: reload and apply to the same image
reloaded = darsia.read_correction(folder / "color.npz")
same_session_output = reloaded(img)
same_state = np.array_equal(
    correction.colorchecker.swatches_rgb, reloaded.colorchecker.swatches_rgb
) and all(
    getattr(correction, k) == getattr(reloaded, k)
    for k in ["active", "whitebalancing", "colorbalancing", "balancing", "clip"]
)
diff_same_session = float(np.abs(original_output - same_session_output).max())

# ---- (b) restarted process: reload and apply to the same image
subprocess.run(
    [sys.executable, __file__, "--child", str(folder)],
    check=True,
    stdout=subprocess.DEVNULL,
)
restart_output = np.load(folder / "reloaded_output.npy")
diff_restart = float(np.abs(original_output - restart_output).max())

# ---- control: identical if OpenCV's hidden generator is put in the same state
cv2.setRNGSeed(1234)
a = correction(img)
cv2.setRNGSeed(1234)
b = reloaded(img)
diff_control = float(np.abs(a - b).max())

print("stored state (swatches, flags) identical after reload:", same_state)
print("expected : max |original(img) - reloaded(img)| == 0")
print(f"observed : same session      -> {diff_same_session:.3e}")
print(f"observed : restarted process -> {diff_restart:.3e}")
print(f"control  : cv2.setRNGSeed before both calls -> {diff_control:.3e}")
print(f"(one 8-bit grey level is {1/255:.3e})")

if same_state and diff_control == 0.0 and max(diff_same_session, diff_restart) > 1e-6:
    print(
        "VIOLATION: the reloaded ColorCorrection does not reproduce the output of the "
        "saved one; the output depends on cv2's global RNG state (cv2.kmeans with "
        "KMEANS_RANDOM_CENTERS in CustomColorChecker._extract_from_image)."
    )
    sys.exit(1)
print("no violation observed")
sys.exit(0)
