"""C16 - tvd() with the scikit-image Bregman methods on a 1-D signal depends on earlier calls.

The same call

    darsia.tvd(signal, method="anisotropic bregman" | "isotropic bregman", weight=0.5, max_num_iter=50)

on the same 1-D array is issued
  (a) as the first call of a fresh interpreter,
  (b) as the last call of a short history of other tvd calls (fresh interpreter as well),
  (c) twice in the same interpreter with other tvd calls in between.
C16 demands identical results. Exit code 1 (and a report) if they differ.
"""

import json
import os
import subprocess
import sys

HERE = os.path.dirname(os.path.abspath(__file__))
SRC = os.path.abspath(os.path.join(HERE, "..", "..", "src"))

CHILD = r"""
import sys, json, warnings
import numpy as np
import darsia
assert darsia.__file__.startswith(sys.argv[3]), darsia.__file__
warnings.simplefilter("ignore")
np.seterr(all="ignore")
history, method = sys.argv[1], sys.argv[2]

signal = np.random.default_rng(0).random(8)            # the argument of the final call
other = np.random.default_rng(5).random((40, 40))       # arguments of the earlier calls

def final_call():
    return darsia.tvd(signal.copy(), method=method, weight=0.5, max_num_iter=50)

results = []
if history == "fresh":
    results.append(final_call())
elif history == "after_other_calls":
    for k in range(3):
        # earlier, independent calls: other images, other weights
        darsia.tvd(other * 1e3 * (k + 1), method=method, weight=0.3, max_num_iter=20)
        darsia.tvd(np.full(8, 1e3 * (k + 1)), method="chambolle", weight=0.3)
        tmp = [np.full(8, 1e3 * (k + 1)) for _ in range(200)]  # user data that is released again
        del tmp
    results.append(final_call())
elif history == "twice":
    results.append(final_call())
    for k in range(3):
        darsia.tvd(other * 1e3 * (k + 1), method=method, weight=0.3, max_num_iter=20)
        tmp = [np.full(8, 1e3 * (k + 1)) for _ in range(200)]
        del tmp
    results.append(final_call())
    # control: the same signal as a 1 x N image (handled by the library) after the same history
    results.append(darsia.tvd(signal.copy()[np.newaxis, :], method=method, weight=0.5, max_num_iter=50))
elif history == "control":
    results.append(darsia.tvd(signal.copy()[np.newaxis, :], method=method, weight=0.5, max_num_iter=50))
print("RESULT" + json.dumps([[repr(float(v)) for v in np.ravel(r)] for r in results]))
"""


def run(history: str, method: str):
    env = dict(os.environ)
    env["PYTHONPATH"] = SRC
    env["OMP_NUM_THREADS"] = "1"
    env["OPENBLAS_NUM_THREADS"] = "1"
    env["PYTHONHASHSEED"] = "0"
    out = subprocess.run(
        [sys.executable, "-c", CHILD, history, method, SRC],
        env=env,
        capture_output=True,
        text=True,
    )
    for line in out.stdout.splitlines():
        if line.startswith("RESULT"):
            return json.loads(line[len("RESULT"):])
    raise RuntimeError(out.stderr)


def main() -> int:
    violated = False
    for method in ["anisotropic bregman", "isotropic bregman"]:
        fresh = run("fresh", method)[0]
        fresh_again = run("fresh", method)[0]
        after = run("after_other_calls", method)[0]
        first, second, control_after = run("twice", method)
        control_fresh = run("control", method)[0]

        print(f"--- darsia.tvd(signal_1d, method={method!r}, weight=0.5, max_num_iter=50)")
        print("  first call of a fresh interpreter        :", ", ".join(v[:12] for v in fresh))
        print("  first call of another fresh interpreter  :", ", ".join(v[:12] for v in fresh_again))
        print("  last call after 3 unrelated tvd calls    :", ", ".join(v[:12] for v in after))
        print("  same interpreter, 1st time               :", ", ".join(v[:12] for v in first))
        print("  same interpreter, 2nd time (calls between):", ", ".join(v[:12] for v in second))
        print("  control (signal as 1 x N image), fresh    :", ", ".join(v[:12] for v in control_fresh))
        print("  control (signal as 1 x N image), history  :", ", ".join(v[:12] for v in control_after))
        print("  (expected for the 1-D signal: the values of the control, whatever the history)")
        assert control_fresh == control_after, "control should be stable"
        checks = {
            "fresh vs. fresh (re-run in a new process)": fresh == fresh_again,
            "fresh vs. after earlier calls": fresh == after,
            "same call twice in one process": first == second,
        }
        for name, ok in checks.items():
            print(f"  {name}: {'identical' if ok else 'DIFFERENT'}")
            violated = violated or not ok

    if violated:
        print(
            "\nVIOLATION of C16: expected identical results for the same arguments "
            "(the result of a total-variation denoising depends only on the arguments of "
            "the call); observed results that depend on the calls made before / on the "
            "process."
        )
        return 1
    print("no deviation observed")
    return 0


if __name__ == "__main__":
    sys.exit(main())
