"""C04 - the flux-reduced formulation cannot be run at all.

The documented option value "flux_reduced" is rejected by the constructor; the
spelling the constructor accepts ("flux-reduced") is unknown to linear_solve,
which then dies with UnboundLocalError in the very first linear solve. The
branch itself is fine: forcing the instance attribute to the spelling that
linear_solve understands gives a mass-conserving result (shown for information).
"""
import sys
import warnings

import numpy as np

import darsia
from darsia.measure.wasserstein import (
    WassersteinDistanceBregman,
    WassersteinDistanceNewton,
)

warnings.filterwarnings("ignore")

rng = np.random.default_rng(0)
shape, dims = (8, 6), (0.8, 0.6)
m1 = rng.random(shape)
m2 = rng.random(shape)
m2 *= m1.sum() / m2.sum()
kw = dict(dimensions=list(dims), space_dim=2, scalar=True, series=False)
img1, img2 = darsia.Image(img=m1, **kw), darsia.Image(img=m2, **kw)
grid = darsia.generate_grid(img1)

violations = 0
for cls in [WassersteinDistanceNewton, WassersteinDistanceBregman]:
    name = cls.__name__[19:]
    ref = cls(grid, None, {"formulation": "pressure", "return_status": True})(img1, img2)
    for formulation in ["flux_reduced", "flux-reduced"]:
        for linear_solver in ["direct", "amg", "cg"]:
            options = {
                "formulation": formulation,
                "linear_solver": linear_solver,
                "linear_solver_options": {"rtol": 1e-8},
                "return_status": True,
            }
            stage = "constructor"
            try:
                solver = cls(grid, None, options)
                stage = "__call__"
                out = solver(img1, img2)
                print(f"{name:7s} {formulation!r:15s} {linear_solver:6s}: ok {out}")
            except Exception as exc:  # noqa
                violations += 1
                print(
                    f"{name:7s} formulation={formulation!r:15s} linear_solver="
                    f"{linear_solver:6s}: expected (distance, converged) as for "
                    f"'pressure' {ref}; observed in {stage}: "
                    f"{type(exc).__name__}: {exc} -> VIOLATION"
                )

    # For information: the branch works once the two spellings agree (instance
    # attributes are patched here, the library is untouched).
    solver = cls(grid, None, {"formulation": "flux-reduced", "return_info": True})
    solver.formulation = "flux_reduced"
    solver.setup_eliminate_flux()
    captured = {}
    orig = solver._solve

    def wrapped(rhs, orig=orig, captured=captured):
        out = orig(rhs)
        captured["solution"] = out[1].copy()
        return out

    solver._solve = wrapped
    d, info = solver(img1, img2)
    flux = captured["solution"][solver.flux_slice]
    mass_diff = np.prod(grid.voxel_size) * (m2 - m1).ravel("F")
    rel = np.abs(solver.div.dot(flux) - mass_diff).max() / np.abs(mass_diff).max()
    print(
        f"{name:7s} [info] with consistent spelling the branch gives distance={d:.12g} "
        f"(pressure formulation: {ref[0]:.12g}), mass imbalance {rel:.1e}"
    )

if violations:
    print(f"\n{violations} configuration(s) of the flux-reduced formulation raise")
    sys.exit(1)
print("no violation")
sys.exit(0)
