"""C04 - FACE_BASED / SUBCELL_BASED mobility with compactly supported masses
(exactly flux-free regions): the face weight divides by a zero flux norm.

* WassersteinDistanceBregman (all default options but the mobility mode) computes
  its iterates and then raises from the pressure recovery after the loop.
* WassersteinDistanceNewton silently turns the iterate into NaN: the result
  (distance, flux, pressure) is NaN - neither mass conserving nor "the last valid
  iterate".
"""
import sys
import warnings

import numpy as np

import darsia
from darsia.measure.wasserstein import (
    MobilityMode,
    WassersteinDistanceBregman,
    WassersteinDistanceNewton,
)

warnings.filterwarnings("ignore")


def images(shape, dims):
    """Two slabs of equal mass, uniform across the short axes."""
    m1 = np.zeros(shape)
    m2 = np.zeros(shape)
    m1[3] = 1.0
    m2[7] = 1.0
    kw = dict(dimensions=list(dims), space_dim=len(shape), scalar=True, series=False)
    if len(shape) == 1:
        kw["indexing"] = "i"
    elif len(shape) == 3:
        kw["indexing"] = "ijk"
    return m1, m2, darsia.Image(img=m1, **kw), darsia.Image(img=m2, **kw)


def run(cls, shape, dims, options):
    m1, m2, img1, img2 = images(shape, dims)
    grid = darsia.generate_grid(img1)
    solver = cls(grid, None, dict(options, return_info=True))
    captured = {}
    orig = solver._solve

    def wrapped(rhs):
        out = orig(rhs)
        captured["solution"] = out[1].copy()
        return out

    solver._solve = wrapped
    distance, info = solver(img1, img2)
    flat_flux = captured["solution"][solver.flux_slice]
    mass_diff = np.prod(grid.voxel_size) * (m2 - m1).ravel("F")
    rel = np.abs(solver.div.dot(flat_flux) - mass_diff).max() / np.abs(mass_diff).max()
    return distance, info, rel


violations = 0
cases = [
    (WassersteinDistanceBregman, (12,), (12.0,), MobilityMode.FACE_BASED, "pressure"),
    (WassersteinDistanceBregman, (12,), (12.0,), MobilityMode.FACE_BASED, "full"),
    (WassersteinDistanceBregman, (12, 4), (12.0, 4.0), MobilityMode.SUBCELL_BASED, "pressure"),
    (WassersteinDistanceBregman, (12, 4), (12.0, 4.0), MobilityMode.SUBCELL_BASED, "full"),
    (WassersteinDistanceBregman, (10, 3, 3), (10.0, 3.0, 3.0), MobilityMode.SUBCELL_BASED, "pressure"),
    (WassersteinDistanceNewton, (10, 3, 3), (10.0, 3.0, 3.0), MobilityMode.SUBCELL_BASED, "full"),
]
for cls, shape, dims, mobility, formulation in cases:
    options = {"mobility_mode": mobility, "formulation": formulation}
    # reference: same input, default mobility mode -> works, distance = mass * 4 cells
    d_ref, info_ref, rel_ref = run(cls, shape, dims, {"formulation": formulation})
    label = f"{cls.__name__[19:]:7s} grid={shape} {mobility.name:13s} {formulation:8s}"
    try:
        d, info, rel = run(cls, shape, dims, options)
    except Exception as exc:  # noqa
        violations += 1
        print(
            f"{label}: expected a (distance, info) result like CELL_BASED gives "
            f"(distance={d_ref:.6g}, imbalance={rel_ref:.1e}); observed "
            f"{type(exc).__name__}: {exc} -> VIOLATION (exception instead of result)"
        )
        continue
    bad = not (np.isfinite(d) and rel < 1e-9)
    violations += bad
    print(
        f"{label}: expected finite distance (CELL_BASED: {d_ref:.6g}) and imbalance "
        f"< 1e-9; observed distance={d}, converged={info['converged']}, "
        f"iterations={info['number_iterations']}, imbalance={rel}, "
        f"NaN entries in info['flux']: {int(np.isnan(info['flux']).sum())}"
        f" -> {'VIOLATION' if bad else 'ok'}"
    )

if violations:
    print(f"\n{violations} violation(s)")
    sys.exit(1)
print("no violation")
sys.exit(0)
