"""C04 - Newton solver, formulation="full", l1_mode=CONSTANT_CELL_PROJECTION:
the returned flux loses the discrete mass balance by many orders of magnitude
(direct solver!), while the very same run with formulation="pressure" keeps it
at 1e-14. One of the runs is even reported converged=True.
"""
import sys
import warnings

import numpy as np

import darsia
from darsia.measure.wasserstein import L1Mode, WassersteinDistanceNewton

warnings.filterwarnings("ignore")


def run(shape, dims, seed, options):
    rng = np.random.default_rng(seed)
    m1 = rng.random(shape)
    m2 = rng.random(shape)
    m2 *= m1.sum() / m2.sum()  # equal mass
    kw = dict(dimensions=list(dims), space_dim=2, scalar=True, series=False)
    img1 = darsia.Image(img=m1, **kw)
    img2 = darsia.Image(img=m2, **kw)
    grid = darsia.generate_grid(img1)
    opts = dict(options, return_info=True)
    solver = WassersteinDistanceNewton(grid, None, opts)

    # capture the flat solution returned by _solve (no source hook)
    captured = {}
    orig = solver._solve

    def wrapped(rhs):
        out = orig(rhs)
        captured["solution"] = out[1].copy()
        return out

    solver._solve = wrapped
    distance, info = solver(img1, img2)

    flat_flux = captured["solution"][solver.flux_slice]
    # destination minus source mass per cell
    mass_diff = np.prod(grid.voxel_size) * (m2 - m1).ravel("F")
    imbalance = solver.div.dot(flat_flux) - mass_diff
    rel = np.abs(imbalance).max() / np.abs(mass_diff).max()
    return distance, info["converged"], info["number_iterations"], rel


TOL = 1e-9  # generous for a sparse direct solver
violations = 0
cases = [
    # (label, shape, physical dimensions, seed, extra options)
    ("A: stops on the flux-increment criterion", (10, 14), (2.0, 3.0), 2,
     {"num_iter": 100, "tol_increment": 1.5e-2}),
    ("B: tight tolerances, 100 iterations", (12, 12), (1e3, 1e3), 7,
     {"num_iter": 100, "tol_residual": 1e-12, "tol_increment": 1e-12,
      "tol_distance": 1e-14}),
]
for label, shape, dims, seed, extra in cases:
    print(f"case {label}; grid {shape}, dimensions {dims}")
    for formulation in ["pressure", "full"]:
        options = {
            "l1_mode": L1Mode.CONSTANT_CELL_PROJECTION,
            "formulation": formulation,
            "linear_solver": "direct",
        }
        options.update(extra)
        d, conv, it, rel = run(shape, dims, seed, options)
        bad = not rel < TOL
        print(
            f"  formulation={formulation:9s} distance={d:.10g} converged={conv} "
            f"iterations={it}  max|div u - (m2-m1)| / max|m2-m1| = {rel:.3e}"
            f"   expected < {TOL:g} -> {'VIOLATION' if bad else 'ok'}"
        )
        violations += bad

if violations:
    print(f"\n{violations} run(s) returned a flux that is not mass conserving.")
    sys.exit(1)
print("no violation")
sys.exit(0)
