"""C04 - SUBCELL_BASED mobility on a grid with a single-cell axis.

An axis with one cell has no interior faces; `_compute_face_weight` indexes
`faces[0]` of that empty face set. WassersteinDistanceBregman raises IndexError
before its first iteration; WassersteinDistanceNewton swallows the error in
iteration 0 and hands back the un-iterated initial guess.
"""
import sys
import warnings

import numpy as np

import darsia
from darsia.measure.wasserstein import (
    MobilityMode,
    WassersteinDistanceBregman,
    WassersteinDistanceNewton,
)

warnings.filterwarnings("ignore")


def run(cls, shape, dims, mobility):
    rng = np.random.default_rng(0)
    m1 = rng.random(shape) + 0.1  # dense: no zero-flux region involved
    m2 = rng.random(shape) + 0.1
    m2 *= m1.sum() / m2.sum()
    kw = dict(dimensions=list(dims), space_dim=len(shape), scalar=True, series=False)
    if len(shape) == 3:
        kw["indexing"] = "ijk"
    img1 = darsia.Image(img=m1, **kw)
    img2 = darsia.Image(img=m2, **kw)
    grid = darsia.generate_grid(img1)
    options = {"mobility_mode": mobility, "num_iter": 50, "return_info": True,
               "tol_increment": 1e-6, "L": 0.05}
    solver = cls(grid, None, options)
    d, info = solver(img1, img2)
    return d, info


violations = 0
for shape, dims in [((9, 1), (0.9, 0.1)), ((1, 9), (0.1, 0.9)), ((5, 1, 4), (0.5, 0.1, 0.4))]:
    for cls in [WassersteinDistanceBregman, WassersteinDistanceNewton]:
        name = cls.__name__[19:]
        d_ref, info_ref = run(cls, shape, dims, MobilityMode.FACE_BASED)
        try:
            d, info = run(cls, shape, dims, MobilityMode.SUBCELL_BASED)
        except Exception as exc:  # noqa
            violations += 1
            print(
                f"{name:7s} grid={shape}: expected a result (FACE_BASED on the same input: "
                f"distance={d_ref:.6g} after {info_ref['number_iterations']} iterations); "
                f"observed {type(exc).__name__}: {exc} -> VIOLATION"
            )
            continue
        # Newton: not an exception, but the solver never iterates
        print(
            f"{name:7s} grid={shape}: FACE_BASED distance={d_ref:.6g} "
            f"(iterations={info_ref['number_iterations']}); SUBCELL_BASED distance={d:.6g}, "
            f"converged={info['converged']}, iterations={info['number_iterations']}, "
            f"history length={len(info['convergence_history']['distance'])}"
            " (iteration 0 died with the same IndexError, caught by the blanket handler)"
        )

if violations:
    print(f"\n{violations} violation(s): exception where a result is promised")
    sys.exit(1)
print("no violation")
sys.exit(0)
