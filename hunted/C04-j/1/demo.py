"""C04 - integer voxel sizes (a list of ints, e.g. a grid measured in nanometres) make the
Wasserstein solvers use a wrapped-around cell volume: the returned flux does not satisfy the
mass balance of the grid it was asked for, and the reported distance is wrong (even negative),
while the run is reported as converged.

Run:  cd /tmp/wt-C04-j && PYTHONPATH=/tmp/wt-C04-j/src /venv/bin/python deliver/1/demo.py
"""
import os
import sys
import warnings

os.environ.setdefault("OMP_NUM_THREADS", "1")
import numpy as np
import scipy.sparse as sps

import darsia

shape = (4, 3, 3)
# voxel sizes of 2.1 mm, 2.1 mm, 2.1 mm expressed in nanometres - once as ints, once as floats
voxel_int = [2100000, 2100000, 2100000]
voxel_flt = [2100000.0, 2100000.0, 2100000.0]

rng = np.random.default_rng(0)
m1 = rng.random(shape)
m2 = rng.random(shape)
m2 *= m1.sum() / m2.sum()  # equal mass


def image(arr, voxel):
    dims = [arr.shape[d] * float(voxel[d]) for d in range(arr.ndim)]
    return darsia.Image(arr.copy(), dimensions=dims, space_dim=arr.ndim, series=False, scalar=True)


def independent_divergence(shape, voxel):
    """cells in column-major order; faces axis by axis, column-major within an axis."""
    voxel = [float(v) for v in voxel]
    dim = len(shape)
    idx = np.arange(int(np.prod(shape))).reshape(shape, order="F")
    rows, cols, data, col = [], [], [], 0
    for d in range(dim):
        area = np.prod([voxel[k] for k in range(dim) if k != d])
        lo = [slice(None)] * dim
        hi = [slice(None)] * dim
        lo[d], hi[d] = slice(0, -1), slice(1, None)
        left, right = idx[tuple(lo)].ravel("F"), idx[tuple(hi)].ravel("F")
        c = col + np.arange(len(left))
        rows += [left, right]
        cols += [c, c]
        data += [area * np.ones(len(left)), -area * np.ones(len(left))]
        col += len(left)
    return sps.csc_matrix(
        (np.concatenate(data), (np.concatenate(rows), np.concatenate(cols))),
        shape=(idx.size, col),
    )


def solve(cls, voxel):
    grid = darsia.Grid(shape, voxel)
    solver = cls(grid, None, {"num_iter": 20, "return_info": True})
    captured = {}
    inner = solver._solve

    def wrapped(f):
        out = inner(f)
        captured["solution"] = out[1].copy()
        return out

    solver._solve = wrapped
    with warnings.catch_warnings():
        warnings.simplefilter("ignore")
        distance, info = solver(image(m1, voxel), image(m2, voxel))
    flux = captured["solution"][: grid.num_faces]
    # mass balance: net outflow of each cell == (m2 - m1) * cell volume
    volume = float(np.prod([float(v) for v in voxel]))
    f = (m2 - m1).ravel("F") * volume
    imbalance = np.abs(independent_divergence(shape, voxel) @ flux - f).max() / np.abs(f).max()
    return float(distance), info["converged"], imbalance


failed = False
for cls in (darsia.WassersteinDistanceNewton, darsia.WassersteinDistanceBregman):
    d_flt, c_flt, i_flt = solve(cls, voxel_flt)
    d_int, c_int, i_int = solve(cls, voxel_int)
    print(cls.__name__)
    print(f"  voxel sizes {voxel_flt}: distance {d_flt:.6e}, converged {c_flt}, "
          f"relative mass imbalance {i_flt:.2e}")
    print(f"  voxel sizes {voxel_int}: distance {d_int:.6e}, converged {c_int}, "
          f"relative mass imbalance {i_int:.2e}")
    if i_int > 1e-9 or abs(d_int - d_flt) > 1e-9 * abs(d_flt):
        failed = True
        print("  VIOLATION: expected the same distance and a mass imbalance <= 1e-9 for the same "
              "grid given with integer voxel sizes;")
        print(f"             observed distance {d_int:.6e} (expected {d_flt:.6e}) and a mass "
              f"imbalance of {i_int:.2e} relative to max|m2 - m1| * volume, flagged converged={c_int}")

g = darsia.Grid(shape, voxel_int)
print("cell volume used by the solver:", darsia.FVMass(g).mat.diagonal()[0],
      "  true cell volume:", 2.1e6 ** 3)
sys.exit(1 if failed else 0)
