"""C03: Geometry.integrate with a scalar voxel volume computes in the precision of the
data (float16 / float32) instead of double precision.

Run: cd /tmp/wt-C03-f && PYTHONPATH=/tmp/wt-C03-f/src /venv/bin/python deliver/1/demo.py
"""
import sys
import warnings

import numpy as np

import darsia

warnings.simplefilter("ignore")
violations = []
# Tolerances are deliberately generous: one unit round-off of the *data* dtype
# (float16: ~1e-3, float32: ~1e-6), although a double precision sum would be exact to 1e-15.


def report(tag, expected, observed, rel_tol):
    err = abs(float(observed) - float(expected)) / abs(float(expected))
    ok = err <= rel_tol
    print(
        f"[{'ok ' if ok else 'BAD'}] {tag}\n"
        f"       expected {float(expected):.12g}   observed {float(observed):.12g}"
        f"   rel.err {err:.3e}   (tol {rel_tol:g}, returned {type(observed).__name__})"
    )
    if not ok:
        violations.append(tag)


# (a) float16 field, unit square, 1000 x 1000 voxels. All values (1.0) are exactly
#     representable in float16; the weighted voxel sum is exactly 1.0.
shape = (1000, 1000)
geometry = darsia.Geometry(space_dim=2, num_voxels=shape, dimensions=[1.0, 1.0])
ones16 = np.ones(shape, dtype=np.float16)
expected = float(np.sum(ones16.astype(np.float64)) * geometry.voxel_volume)
report("float16 data, unit square", expected, geometry.integrate(ones16), 1e-3)

# (b) same field, but a 1 cm x 1 cm domain (voxel volume 1e-10 m^2): the voxel volume
#     is demoted to float16 and flushes to zero.
small = darsia.Geometry(space_dim=2, num_voxels=shape, dimensions=[0.01, 0.01])
expected = float(np.sum(ones16.astype(np.float64)) * small.voxel_volume)
report("float16 data, 1cm x 1cm domain", expected, small.integrate(ones16), 1e-3)

# (c) resolution independence: the same piecewise-constant float16 field supplied at the
#     native resolution (100 x 100) and 10-fold refined.
coarse_geometry = darsia.Geometry(
    space_dim=2, num_voxels=(100, 100), dimensions=[1.0, 1.0]
)
rng = np.random.default_rng(0)
native16 = rng.integers(1, 9, size=(100, 100)).astype(np.float16)  # exact in float16
fine16 = np.repeat(np.repeat(native16, 10, axis=0), 10, axis=1)
expected = float(np.sum(native16.astype(np.float64)) * coarse_geometry.voxel_volume)
report(
    "float16 data, native 100x100", expected, coarse_geometry.integrate(native16), 1e-3
)
report(
    "float16 data, same field refined x10",
    expected,
    coarse_geometry.integrate(fine16),
    1e-3,
)

# (d) float32 field: accumulated in float32 along the rows; error far above float32
#     round-off of the data (which are all identical, so the exact answer is n * v * c).
shape32 = (4000, 4000)
geometry32 = darsia.Geometry(space_dim=2, num_voxels=shape32, dimensions=[1.0, 1.0])
const32 = np.full(shape32, 0.1, dtype=np.float32)
expected = float(np.float64(const32[0, 0]))  # total area is 1
report("float32 constant data, 4000x4000", expected, geometry32.integrate(const32), 1e-6)

# (e) the same float32 data give a double precision result as soon as the voxel volume
#     is an array (weight identically 1) -> the result depends on the kind of volume.
weighted32 = darsia.WeightedGeometry(
    np.ones(shape32), space_dim=2, num_voxels=shape32, dimensions=[1.0, 1.0]
)
report(
    "   (for comparison) float32 data, array weight == 1",
    expected,
    weighted32.integrate(const32),
    1e-6,
)

# (f) normalize: two float32 images on a plain geometry -> exception instead of an image
#     with the integral of the reference.
a = darsia.Image(
    rng.random((40, 60)).astype(np.float32), dimensions=[1.0, 2.0], scalar=True
)
b = darsia.Image(
    rng.random((40, 60)).astype(np.float32), dimensions=[1.0, 2.0], scalar=True
)
plain = darsia.Geometry(space_dim=2, num_voxels=(40, 60), dimensions=[1.0, 2.0])
try:
    out = plain.normalize(a, b)
    report(
        "normalize(float32 img, float32 ref)",
        plain.integrate(b),
        plain.integrate(out),
        1e-6,
    )
except Exception as e:  # noqa
    print(
        f"[BAD] normalize(float32 img, float32 ref): expected an image with the integral"
        f" of the reference, observed {type(e).__name__}({e})"
    )
    violations.append("normalize float32")

if violations:
    print(f"\nVIOLATION of C03 ({len(violations)} checks): {violations}")
    sys.exit(1)
print("no violation")
sys.exit(0)
