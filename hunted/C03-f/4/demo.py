"""C03: Geometry.normalize raises for scalar images with an integer dtype.

Run: cd /tmp/wt-C03-f && PYTHONPATH=/tmp/wt-C03-f/src /venv/bin/python deliver/4/demo.py
"""
import sys
import warnings

import numpy as np

import darsia

warnings.simplefilter("ignore")
rng = np.random.default_rng(0)
violations = 0
shape = (4, 6)
meta = dict(dimensions=[1.0, 2.0], scalar=True)
depth = 0.5 + rng.random(shape)
geometries = {
    "Geometry": darsia.Geometry(space_dim=2, num_voxels=shape, dimensions=[1.0, 2.0]),
    "ExtrudedGeometry(array depth)": darsia.ExtrudedGeometry(
        depth, space_dim=2, num_voxels=shape, dimensions=[1.0, 2.0]
    ),
}
reference = darsia.Image(rng.random(shape), **meta)


def run(tag, geometry, img, ref):
    """normalize must return an image whose integral equals the one of the reference."""
    global violations
    expected = geometry.integrate(ref)
    try:
        out = geometry.normalize(img, ref)
        observed = geometry.integrate(out)
        err = np.max(np.abs(observed - expected) / np.abs(expected))
        ok = err < 1e-9
        print(f"[{'ok ' if ok else 'BAD'}] {tag}: integral(ref) {expected}, integral(normalized) {observed}")
    except Exception as e:  # noqa
        ok = False
        print(
            f"[BAD] {tag}: integral(ref) {expected}, expected a normalized image, observed "
            f"{type(e).__name__}: {e}"
        )
    if not ok:
        violations += 1


for name, geometry in geometries.items():
    print(name)
    # float64 image: fine
    run("  float64 scalar image", geometry, darsia.Image(rng.random(shape), **meta), reference)
    # 8-bit grayscale image / integer count image: exception
    gray = darsia.Image(rng.integers(1, 255, size=shape).astype(np.uint8), **meta)
    run("  uint8 scalar image", geometry, gray, reference)
    counts = darsia.Image(rng.integers(1, 1000, size=shape), **meta)  # int64
    run("  int64 scalar image", geometry, counts, reference)
    # ... while the integral of the very same image is perfectly defined ...
    print("     integrate(uint8 image) =", geometry.integrate(gray))
    # ... and the very same integer data as a one-slice *series* (or a vector image) are normalized
    # without complaint (the ratio is an array there and is applied out of place).
    gray_series = darsia.Image(gray.img[..., None].copy(), series=True, time=[0.0], **meta)
    ref_series = darsia.Image(reference.img[..., None].copy(), series=True, time=[0.0], **meta)
    run("  uint8 one-slice series image", geometry, gray_series, ref_series)

if violations:
    print(f"\nVIOLATION of C03: {violations} checks failed")
    sys.exit(1)
print("no violation")
