"""C03: array-weighted geometry, data refined along one axis and coarsened along the other.

Run: cd /tmp/wt-C03-f && PYTHONPATH=/tmp/wt-C03-f/src /venv/bin/python deliver/2/demo.py
"""
import sys

import numpy as np

import darsia

rng = np.random.default_rng(0)
violations = 0


# NOTE: tolerance 1e-6 on purpose - far above any round-off - to isolate this defect from the
# 3e-8 float32 scale factor that cv2 applies for pure coarsening by 3 (see finding 3).
def check(tag, expected, observed, tol=1e-6):
    global violations
    err = np.max(np.abs(np.asarray(observed) - np.asarray(expected)) / np.abs(expected))
    ok = err <= tol
    print(f"[{'ok ' if ok else 'BAD'}] {tag}: expected {expected}, observed {observed}, rel.err {err:.2e}")
    if not ok:
        violations += 1


# Geometry: 4 x 6 voxels on [0,1] x [0,2], depth varying from voxel to voxel.
num_voxels = (4, 6)
depth = np.array(
    [
        [1.0, 2.0, 3.0, 4.0, 5.0, 6.0],
        [2.0, 3.0, 4.0, 5.0, 6.0, 7.0],
        [1.0, 1.0, 2.0, 2.0, 4.0, 4.0],
        [5.0, 1.0, 5.0, 1.0, 5.0, 1.0],
    ]
)
kw = dict(space_dim=2, num_voxels=num_voxels, dimensions=[1.0, 2.0])
voxel_volume = (1.0 / 4) * (2.0 / 6) * depth

# Piecewise constant field: constant on blocks of 1 x 3 native voxels (i.e. it lives on a
# 4 x 2 grid). It can be supplied exactly at the resolutions
#   native (4, 6), coarser (4, 2), finer (8, 12), and "mixed" (8, 2): rows refined by 2,
#   columns coarsened by 3 - integer factors per axis.
base = np.array([[1.0, 2.0], [3.0, 5.0], [7.0, 11.0], [13.0, 17.0]])  # (4, 2)
native = np.repeat(base, 3, axis=1)  # (4, 6)
coarser = base  # (4, 2)
finer = np.repeat(np.repeat(native, 2, axis=0), 2, axis=1)  # (8, 12)
mixed = np.repeat(base, 2, axis=0)  # (8, 2)
expected = float(np.sum(voxel_volume * native))

for name, Geo, args in [
    ("ExtrudedGeometry", darsia.ExtrudedGeometry, (depth,)),
    ("ExtrudedPorousGeometry", darsia.ExtrudedPorousGeometry, (0.5 * np.ones(num_voxels), 2 * depth)),
]:
    print(name)
    check("  native (4,6)", expected, Geo(*args, **kw).integrate(native))
    check("  coarser (4,2)", expected, Geo(*args, **kw).integrate(coarser))
    check("  finer (8,12)", expected, Geo(*args, **kw).integrate(finer))
    check("  mixed (8,2): rows x2 finer, columns x3 coarser", expected, Geo(*args, **kw).integrate(mixed))
    check("  mixed (2,12): rows x2 coarser, columns x2 finer (factor-2 coarsening happens to work)",
          float(np.sum(voxel_volume * np.repeat(np.repeat(base[::2], 2, axis=0), 3, axis=1))),
          Geo(*args, **kw).integrate(np.repeat(base[::2], 6, axis=1)))

# Series payload: every time step is wrong.
series_base = rng.random((4, 2, 3))
series_native = np.repeat(series_base, 3, axis=1)
series_mixed = np.repeat(series_base, 2, axis=0)
expected_series = np.einsum("ij,ijk->k", voxel_volume, series_native)
g = darsia.ExtrudedGeometry(depth, **kw)
check("series, native", expected_series, g.integrate(series_native))
check("series, mixed (8,2,3)", expected_series, g.integrate(series_mixed))

# The scalar-depth geometry handles the same call correctly:
gs = darsia.ExtrudedGeometry(2.0, **kw)
check("scalar depth, mixed (8,2)", float(np.sum(native) * (1.0 / 4) * (2.0 / 6) * 2.0), gs.integrate(mixed))

# The mechanism: the cached voxel volume at (8, 2) is not the conservative resampling.
g = darsia.ExtrudedGeometry(depth, **kw)
g.integrate(mixed)
exact_cache = np.repeat(voxel_volume.reshape(4, 2, 3).sum(axis=2), 2, axis=0) / 2
print("cached voxel volume at (8,2):\n", g.cached_voxel_volume)
print("conservative resampling would be:\n", exact_cache)

if violations:
    print(f"\nVIOLATION of C03: {violations} checks failed")
    sys.exit(1)
print("no violation")
