"""C03: array-weighted geometry, purely refined data with certain integer factors (49, 98,
103, 107, 161, ...): one slab of fine voxels is weighted with the volume of the wrong native voxel.

Run: cd /tmp/wt-C03-f && PYTHONPATH=/tmp/wt-C03-f/src /venv/bin/python deliver/3/demo.py
"""
import sys

import numpy as np

import darsia

violations = 0
TOL = 1e-9


def check(tag, expected, observed, tol=TOL, count=True):
    global violations
    err = abs(observed - expected) / abs(expected)
    ok = err <= tol
    print(f"[{'ok ' if ok else 'BAD'}] {tag}: expected {expected!r}, observed {observed!r}, rel.err {err:.2e}")
    if not ok and count:
        violations += 1


# Depth map given on a coarse 10 x 20 grid (e.g. a measured depth map of a 1m x 2m rig) ...
rng = np.random.default_rng(0)
num_voxels = (10, 20)
depth = 0.02 + 0.01 * rng.random(num_voxels)
kw = dict(space_dim=2, num_voxels=num_voxels, dimensions=[1.0, 2.0])
voxel_volume = (1.0 / 10) * (2.0 / 20) * depth

# ... and a field that is piecewise constant on that grid
native = rng.random(num_voxels)
expected = float(np.sum(voxel_volume * native))

for r in [7, 48, 49, 50, 98, 103]:
    # the same field supplied r-times refined along both axes (e.g. 490 x 980 camera image)
    fine = np.repeat(np.repeat(native, r, axis=0), r, axis=1)
    g = darsia.ExtrudedGeometry(depth, **kw)
    check(f"refinement x{r}: data {fine.shape}", expected, float(g.integrate(fine)))

# Smallest instance: 2 x 1 voxels with depths 1 and 3, data refined x49 in the first axis.
g = darsia.ExtrudedGeometry(np.array([[1.0], [3.0]]), space_dim=2, num_voxels=(2, 1), dimensions=[2.0, 1.0])
coarse = np.array([[1.0], [1.0]])
check("2x1 geometry, native", 4.0, float(g.integrate(coarse)))
check("2x1 geometry, data refined x49 -> (98,1)", 4.0, float(g.integrate(np.repeat(coarse, 49, axis=0))))
cached = g.cached_voxel_volume[:, 0] * 49
print("   fine voxel index -> native voxel volume used (rows 47..51):", cached[47:52],
      " (row 49 belongs to the second native voxel, volume 3)")

# History: the native value is not affected afterwards (the cache is rebuilt), i.e. it is the
# refined call itself that is wrong.
check("2x1 geometry, native again", 4.0, float(g.integrate(coarse)))

# Side observation (same call site, reported but NOT counted for the exit code): pure coarsening
# by a factor that is not a power of two carries a float32 normalisation of cv2 (~3e-8).
g = darsia.ExtrudedGeometry(depth[:9, :18].copy(), space_dim=2, num_voxels=(9, 18), dimensions=[1.0, 2.0])
base = rng.random((3, 6))
nat = np.repeat(np.repeat(base, 3, axis=0), 3, axis=1)
check("(side note) coarsening x3: float32 scale of cv2", float(g.integrate(nat)), float(g.integrate(base)), count=False)

if violations:
    print(f"\nVIOLATION of C03: {violations} checks failed")
    sys.exit(1)
print("no violation")
